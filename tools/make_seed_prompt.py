#!/usr/bin/env python3
"""Write the prompt handed to an independent seeding sub-agent:
    tools/make_seed_prompt.py C08 /tmp/wt7-C08 t1 t2 t3 [--focus "text"]  > prompt.txt
The agent gets the property text (statement, quantifier, why tests cannot settle it), the short
descriptions of the changes already made for that property (so that it looks elsewhere), and its own
worktree.  Nothing from /verif except those descriptions (which were written by earlier agents)."""
import glob
import json
import os
import sys

VERIF = os.path.dirname(os.path.dirname(os.path.abspath(__file__)))

HEAD = '''You are helping evaluate a verification framework for the open-source tool jtesta/ssh-audit (a dependency-free Python CLI that audits SSH servers/clients). Your job: write %(n)s independent, realistic source changes ("seeded defects") to ssh-audit that each BREAK the semantic property given below while the code still imports/compiles and the project's existing test suite still passes.

Working copy: a private git worktree of the repository at WT (see bottom). Work ONLY inside WT. Never touch /repo or /verif (do not read /verif either). The sandbox has no network.

How to run things:
  - existing test suite (must still pass with your change):  cd WT && PYTHONPATH=WT/src /venv/bin/python -m pytest -q -p no:cacheprovider test
    (PYTHONPATH matters: /venv has an editable install pointing elsewhere; PYTHONPATH=WT/src makes python import YOUR copy.)
  - the CLI: PYTHONPATH=WT/src /venv/bin/python WT/ssh-audit.py ...   (source is under WT/src/ssh_audit/)
  - test/conftest.py has a virtual-socket fixture you can imitate in a demonstration; you can also write a tiny threaded TCP server on 127.0.0.1 that plays an SSH server (banner line + a KEXINIT packet, and if needed KEXDH/GEX replies) and run the CLI against it with --skip-rate-test, or call functions directly.

Requirements for each change:
  1. It must violate the property below in a way that is HARD to hit: it should need a rare conjunction of conditions (e.g. a specific option combination together with a specific peer behaviour; a third or later connection/target; a particular list length or position; an uncommon but legal value; a specific ordering of events between worker threads; state carried from an earlier step; a fault at one particular point; two cooperating code sites that each look fine alone). Ordinary use, and even fairly thorough randomized testing with typical inputs, should not expose it. Think of subtle regressions from a real refactoring, caching, "optimisation", hardening or clean-up.
  2. The existing test suite must still pass, unedited.
  3. Keep it small (a few lines) and plausible; no comments that give it away.
  4. The changes must have different root causes / different code sites, and must be DIFFERENT from the changes already made by others for this property, which are listed at the bottom under ALREADY DONE.
  5. Provide a demonstration for each: a self-contained python script demo.py that exits 0 on the ORIGINAL code and exits non-zero (printing what went wrong) on the CHANGED code. It takes the source root as argv[1] (default WT) and must set sys.path / PYTHONPATH itself accordingly. Verify both behaviours yourself (switch with `git diff > /tmp/mypatch-PROP-k.diff; git checkout -- .; git apply /tmp/mypatch-PROP-k.diff` -- do NOT use `git stash`, it is shared between worktrees and other agents are working in parallel). The demo must be deterministic (run it three times) and finish within a minute.
  6. The change must make the tool violate the PROPERTY AS STATED (observable through the CLI's output, exit status or network behaviour, or through the functions the statement talks about) - not merely change an internal detail.
%(focus)s
Deliverables (create these files):
  WT/_seed/K1/patch.diff   (output of `git diff` for the first change only, relative to the worktree's HEAD, applying with `patch -p1` or `git apply`)
  WT/_seed/K1/demo.py
  WT/_seed/K1/notes.txt    (2-6 lines: what the change is, which part of the property it breaks, exactly what it needs in order to manifest, what you ran)
  ... and the same for the other seed names given at the bottom.
Leave the worktree's tracked files UNCHANGED at the end (git checkout -- . ; the _seed directory is untracked and stays).

Final answer: a short summary of the changes and confirmation of what you verified (tests pass with change; demo passes without and fails with).

THE PROPERTY:

%(pid)s -- %(title)s
  %(statement)s
  (quantified over: %(quant)s)
  (why ordinary tests cannot settle it: %(why)s)

WT = %(wt)s
Seed names: %(names)s

ALREADY DONE for this property (do not repeat; find other code sites / mechanisms, and make yours harder to hit than these):
%(done)s
'''


def main():
    args = sys.argv[1:]
    focus = ''
    if '--focus' in args:
        i = args.index('--focus')
        focus = '\nAdditional direction for this round: ' + args[i + 1] + '\n'
        del args[i:i + 2]
    pid, wt, names = args[0], args[1], args[2:]
    prop = None
    for line in open(os.path.join(VERIF, 'properties.jsonl')):
        p = json.loads(line)
        if p['id'] == pid:
            prop = p
    done = []
    for f in sorted(glob.glob(os.path.join(VERIF, 'seeded', pid + '-*', 'meta.json'))):
        m = json.load(open(f))
        done.append('- ' + ' '.join(m.get('needs', '').split())[:420])
    sys.stdout.write(HEAD % dict(
        n={1: 'ONE', 2: 'TWO', 3: 'THREE', 4: 'FOUR'}.get(len(names), str(len(names))), focus=focus, pid=pid, title=prop['title'],
        statement=prop['statement'], quant=prop['quantifier']['text'], why=prop['why_tests_cant'], wt=wt,
        names=', '.join('K%d = %s' % (i + 1, n) for i, n in enumerate(names)), done='\n'.join(done) or '(none)'))


if __name__ == '__main__':
    main()

#!/usr/bin/env python3
"""Ingest seeded changes written by independent sub-agents:  tools/ingest_seed.py /tmp/wt-C01 C01 [more checks...]

For each WT/_seed/<k>: confirm in a scratch copy of /repo (outside /repo and /verif) that (a) the patch
applies, (b) the repo's unedited test suite passes with it, (c) demo.py exits 0 without and non-zero
with the change; then keep it as /verif/seeded/<prop>-<k>/ (patch.diff, demo.py, meta.json) and run the
listed checks (quick tier) against the changed copy, recording which of them caught it."""
import json
import os
import shutil
import subprocess
import sys
import tempfile

VERIF = os.path.dirname(os.path.dirname(os.path.abspath(__file__)))
sys.path.insert(0, VERIF)
from vlib import selftest  # noqa: E402


def sh(cmd, **kw):
    p = subprocess.run(cmd, stdout=subprocess.PIPE, stderr=subprocess.STDOUT, **kw)
    return p.returncode, p.stdout.decode('utf-8', 'replace')


def scratch_full():
    d = tempfile.mkdtemp(prefix='verif-seed-')
    for item in ('src', 'test', 'ssh-audit.py', 'setup.cfg', 'setup.py', 'pyproject.toml'):
        s = os.path.join('/repo', item)
        if os.path.isdir(s):
            shutil.copytree(s, os.path.join(d, item), ignore=shutil.ignore_patterns('__pycache__', '*.egg-info'))
        elif os.path.exists(s):
            shutil.copy(s, d)
    return d


def main():
    wt, prop = sys.argv[1], sys.argv[2]
    checks = sys.argv[2:]
    for k in sorted(os.listdir(os.path.join(wt, '_seed'))):
        sd = os.path.join(wt, '_seed', k)
        if not os.path.exists(os.path.join(sd, 'patch.diff')):
            continue
        if sys.argv[2] == 'auto':
            # fourth wave: the agent saw all property statements and an assigned code area, and names the property it broke
            prop = open(os.path.join(sd, 'prop.txt')).read().strip().split()[0]
            checks = [prop] + sys.argv[3:]
            name = '%s-%s' % (prop, k)
        else:
            name = '%s-%s' % (prop, k)
        meta = {'property': prop, 'origin': 'independent sub-agent, given only the property text%s and a private worktree' % ('s (all 19) and a code area' if sys.argv[2] == 'auto' else ''), 'checks': checks}
        meta['needs'] = open(os.path.join(sd, 'notes.txt')).read().strip() if os.path.exists(os.path.join(sd, 'notes.txt')) else ''
        orig = scratch_full()
        mut = scratch_full()
        try:
            rc, out = sh(['patch', '-p1', '-s', '-i', os.path.join(sd, 'patch.diff')], cwd=mut)
            meta['patch_applies'] = rc == 0
            if rc != 0:
                print(name, 'PATCH DOES NOT APPLY', out[-300:])
                continue
            env = dict(os.environ, PYTHONPATH=os.path.join(mut, 'src'))
            rc, out = sh(['/venv/bin/python', '-m', 'pytest', '-q', '-p', 'no:cacheprovider', 'test'], cwd=mut, env=env)
            meta['repo_tests_pass_with_change'] = rc == 0
            meta['repo_tests_tail'] = out.strip().splitlines()[-1] if out.strip() else ''
            rc0, out0 = sh(['/venv/bin/python', os.path.join(sd, 'demo.py'), orig], env=dict(os.environ, PYTHONPATH=os.path.join(orig, 'src')), timeout=600)
            rc1, out1 = sh(['/venv/bin/python', os.path.join(sd, 'demo.py'), mut], env=dict(os.environ, PYTHONPATH=os.path.join(mut, 'src')), timeout=600)
            meta['demo_exit_without_change'] = rc0
            meta['demo_exit_with_change'] = rc1
            meta['demo_output_with_change_tail'] = out1[-400:]
            ok = meta['repo_tests_pass_with_change'] and rc0 == 0 and rc1 != 0
            meta['confirmed'] = ok
            print('%s: tests=%s demo(orig)=%d demo(changed)=%d -> %s' % (name, meta['repo_tests_pass_with_change'], rc0, rc1, 'CONFIRMED' if ok else 'REJECTED'))
            if not ok:
                print(out0[-300:], out1[-300:])
                continue
            dst = os.path.join(VERIF, 'seeded', name)
            os.makedirs(dst, exist_ok=True)
            shutil.copy(os.path.join(sd, 'patch.diff'), dst)
            shutil.copy(os.path.join(sd, 'demo.py'), dst)
            caught = {}
            for c in checks:
                rc, text = selftest.run_check(c, mut)
                sigs = [l.strip()[len('signature: '):] for l in text.splitlines() if l.strip().startswith('signature: ')]
                caught[c] = {'exit': rc, 'signatures': sigs[:5]}
                print('   %s quick: exit=%d %s %s' % (c, rc, 'CAUGHT' if rc == 1 else ('HARNESS-ERROR' if rc == 2 else 'MISSED'), '; '.join(s[:90] for s in sigs[:2])))
                if rc == 2:
                    print(text[-500:])
            meta['ran'] = 'tools/ingest_seed.py: patch applied to a scratch copy of /repo; unedited repo tests; demo.py on original and changed copy; ./check <ID> --tier quick with VERIF_REPO_ROOT=<changed copy>'
            meta['results'] = caught
            json.dump(meta, open(os.path.join(dst, 'meta.json'), 'w'), indent=1)
        finally:
            shutil.rmtree(orig, ignore_errors=True)
            shutil.rmtree(mut, ignore_errors=True)


if __name__ == '__main__':
    main()

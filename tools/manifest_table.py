"""Table from which tools/gen_manifest.py writes MANIFEST.json."""

SOURCE_COMMITS = []

ENGINES = [
    {'name': 'engine-A', 'path': 'vlib/fakenet.py + vlib/drive.py', 'serves_properties': ['C01', 'C02', 'C03', 'C04', 'C05', 'C07', 'C08', 'C09', 'C11', 'C12', 'C13', 'C15', 'C16', 'C18', 'C19'], 'kind_free_text': 'in-process run of the whole CLI (argv -> stdout + exit status) against scripted SSH peers over a virtual network, resolver, select and clock'},
    {'name': 'engine-B', 'path': 'vlib/drive.py (RealServers, run_subprocess)', 'serves_properties': ['C07', 'C08', 'C09', 'C15', 'C19'], 'kind_free_text': 'the real /repo/ssh-audit.py process against the same scripted peers over loopback TCP; validates engine A and varies what only a process can (hash seed, free-running threads)'},
    {'name': 'function-level', 'path': 'checks/c06.py c10.py c14.py c16.py c17.py', 'serves_properties': ['C06', 'C10', 'C14', 'C16', 'C17'], 'kind_free_text': 'Hypothesis / exhaustive enumeration directly on repo functions with independent reference models'},
    {'name': 'atheris', 'path': 'fuzz/', 'serves_properties': ['C09', 'C10', 'C16'], 'kind_free_text': 'coverage-guided fuzzing of the parsers with caller-contract / round-trip oracles inside the target (thorough tier)'},
]

NOTES = 'All checks: ./check <ID> --tier quick|thorough, honour VERIF_SEED, write evidence/<ID>.json, exit 0/1/2 (2 = harness error, never a VIOLATION). Known findings: KNOWN_FINDINGS.json. Replays: ./check <ID> --replay <file>. Sensitivity: ./check selftest <ID>.'

EXPL = 'generated-input search (Hypothesis strategies and/or exhaustive enumeration of a finite generated domain) against an explicit independent oracle'

CHECKS = {
    'C12': {'level': 'exploration', 'technique': 'exhaustive enumeration of server moduli policies + fault family vs reference model', 'ref': 'DESIGN.md §4 C12',
            'text': 'Every one of the 9 216 stated moduli policies (thorough; seeded sample in quick) is audited through the whole CLI, text and JSON, and the reported size / notes are compared with a reference computed from the policy and the documented probe sequence; plus faults in the GEX phase and an extension grid. Exhaustive over the stated finite domain, so a wrong size or threshold for any stated policy is found; absence outside it is not claimed.',
            'note': 'trusts engine A (virtual network) and the reference model of the three selection styles; moduli are 2^(n-1)+1'},
}

NOT_APPLICABLE = {p: 'check not built yet in this round (design in DESIGN.md §4); to be claimed when its check exists' for p in
                  ['C01', 'C02', 'C03', 'C04', 'C05', 'C06', 'C07', 'C08', 'C09', 'C10', 'C11', 'C13', 'C14', 'C15', 'C16', 'C17', 'C18', 'C19']}

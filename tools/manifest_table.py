"""Table from which tools/gen_manifest.py writes MANIFEST.json."""

SOURCE_COMMITS = []

ENGINES = [
    {'name': 'engine-A', 'path': 'vlib/fakenet.py + vlib/drive.py', 'serves_properties': ['C01', 'C02', 'C03', 'C04', 'C05', 'C07', 'C08', 'C09', 'C11', 'C12', 'C13', 'C15', 'C16', 'C18', 'C19'], 'kind_free_text': 'in-process run of the whole CLI (argv -> stdout + exit status) against scripted SSH peers over a virtual network, resolver, select and clock'},
    {'name': 'engine-B', 'path': 'vlib/drive.py (RealServers, run_subprocess)', 'serves_properties': ['C07', 'C08', 'C09', 'C15', 'C19'], 'kind_free_text': 'the real /repo/ssh-audit.py process against the same scripted peers over loopback TCP; validates engine A and varies what only a process can (hash seed, free-running threads)'},
    {'name': 'function-level', 'path': 'checks/c06.py c10.py c14.py c16.py c17.py', 'serves_properties': ['C06', 'C10', 'C14', 'C16', 'C17'], 'kind_free_text': 'Hypothesis / exhaustive enumeration directly on repo functions with independent reference models'},
    {'name': 'atheris', 'path': 'fuzz/', 'serves_properties': ['C09', 'C10', 'C16'], 'kind_free_text': 'coverage-guided fuzzing of the parsers with caller-contract / round-trip oracles inside the target (thorough tier)'},
]

NOTES = 'All checks: ./check <ID> --tier quick|thorough, honour VERIF_SEED, write evidence/<ID>.json, exit 0/1/2 (2 = harness error, never a VIOLATION). Known findings: KNOWN_FINDINGS.json. Replays: ./check <ID> --replay <file>. Sensitivity: ./check selftest <ID>.'

EXPL = 'generated-input search (Hypothesis strategies and/or exhaustive enumeration of a finite generated domain) against an explicit independent oracle'

CHECKS = {
    'C01': {'level': 'exploration', 'technique': 'Hypothesis-generated KEXINIT / SSH-1 messages through the whole CLI vs expected report derived from the wire bytes', 'ref': 'DESIGN.md §4 C01',
            'text': 'Thousands of generated peers (database, gss-*, unknown, non-UTF-8, duplicate, empty, very long names; asymmetric directions; both roles; six renderings; probes answered) are audited through the real CLI code and the names shown per category are compared, in order and multiplicity, with the names on the wire decoded by an independent codec. Random search, so absence is not claimed; the SSH-1 mask space is exhaustive in the thorough tier.',
            'note': 'trusts engine A and vlib/wire.py; names are RFC 4251 names; either advertised direction accepted for ciphers/MACs but the same one in text and JSON'},
    'C02': {'level': 'exploration', 'technique': 'Hypothesis peers x option sets vs exit status computed from table classes; enumerated broken handshakes', 'ref': 'DESIGN.md §4 C02',
            'text': 'Exit status of the whole CLI is compared with the worst severity computed independently from the rating table (plus Terrapin context and unknown names) for generated peers under 14 option sets, both roles; every handshake-breaking fault (every KEXINIT truncation offset in thorough) must yield a status outside {0,2,3} and no algorithm report; policy audits must exit 0 iff passed.',
            'note': 'trusts engine A and the table-class reference; no probe answered in the rated family'},
    'C03': {'level': 'exploration', 'technique': 'exhaustive over database names + Hypothesis placements vs notes computed from the table entry; metamorphic position/role/view; --lookup', 'ref': 'DESIGN.md §4 C03',
            'text': 'Every database name is audited (text and JSON) at generated positions among generated neighbours, in both roles, and looked up; the notes shown must equal the table entry plus the documented Terrapin context; unknown names must be flagged in every occurrence.',
            'note': 'trusts engine A, the report parsers and the since-text reference'},
    'C04': {'level': 'exploration', 'technique': 'exhaustive enumeration of the 576 role/marker/class shapes instantiated over all class members vs the published rule', 'ref': 'DESIGN.md §4 C04',
            'text': 'All 576 combinations of role x marker x ChaCha subset x #CBC x #ETM x other are instantiated with database names of each class (every member in thorough), marker at varying positions, and with unknown names of the same shape; the set of algorithms carrying the Terrapin warning, the advisory note and the add-recommendations are compared with a reference function of the published rule.',
            'note': 'class membership by name shape; symmetric lists only'},
    'C05': {'level': 'exploration', 'technique': 'Hypothesis peers: -M then -P on the same peer and on every single-attribute perturbation; all built-in policies', 'ref': 'DESIGN.md §4 C05',
            'text': 'For generated peers (names with = + / @, RSA/cert/CA/GEX sizes, both roles, asymmetric directions) the CLI writes a policy, must pass it on the same peer and fail it, naming the field, on each applicable perturbation; all 47 built-in policies are run against a peer configured as listed with each optional host key.',
            'note': 'trusts engine A; perturbation sizes on a 1024-bit grid'},
    'C06': {'level': 'exploration', 'technique': 'exhaustive small universe + Hypothesis large instances vs reference model of the documented matching rules; metamorphic shrink/grow', 'ref': 'DESIGN.md §4 C06',
            'text': 'Policy text is generated, parsed by the tool and evaluated against generated peers; verdict, error fields and error contents are compared with a reference model written from the statement; the small universe (24 880 pairs) is enumerated completely; passing pairs stay passing under subset-deletion and key growth; a sample goes through the CLI in text and JSON.',
            'note': 'reference model in checks/c06.py; subset mode + optional host keys accepted either way'},
    'C10': {'level': 'exploration', 'technique': 'enumeration + Hypothesis + atheris round-trip/differential against an independent RFC 4251/4253 codec', 'ref': 'DESIGN.md §4 C10',
            'text': 'Every encoder/decoder pair of the tool is compared with vlib/wire.py on a dense integer window, +-2^k+d up to k=8192, all boundary word patterns, random big integers of both signs, every payload length 0..4096 and generated name-lists / KEXINIT / SSH-1 messages; thorough adds 3.2 M coverage-guided executions of decode->encode->decode.',
            'note': 'trusts vlib/wire.py (cross-checked against int.to_bytes / zlib.crc32)'},
    'C11': {'level': 'exploration', 'technique': 'enumerated size grid and CA matrix through the whole CLI vs sizes known from the generated blobs', 'ref': 'DESIGN.md §4 C11',
            'text': 'The server answers host-key probes with blobs built by the harness, so true sizes, CA types and fingerprints are known; the size grid (512..16384 step 64, every multiple of 8 near both thresholds), every RSA-name subset/order, every CA kind and every probe-capable first key exchange are audited in JSON and verbose text.',
            'note': 'two recorded findings (sizes = 8 mod 16; P-521 CA shown as 528) are matched by narrow signatures'},
    'C12': {'level': 'exploration', 'technique': 'exhaustive enumeration of server moduli policies + fault family vs reference model', 'ref': 'DESIGN.md §4 C12',
            'text': 'Every one of the 9 216 stated moduli policies is audited through the whole CLI, text and JSON (both tiers), and the reported size / notes are compared with a reference computed from the policy and the documented probe sequence; plus faults in the GEX phase and an extension grid including sizes next to the thresholds. Exhaustive over the stated finite domain.',
            'note': 'trusts engine A and the reference model of the three selection styles; moduli are 2^(n-1)+1'},
    'C14': {'level': 'exploration', 'technique': 'Hypothesis pairs/triples + exhaustive small grid vs tuple-of-int order; CLI banners around every first-appeared version', 'ref': 'DESIGN.md §4 C14',
            'text': 'compare_version / between_versions / Timeframe are checked for agreement with numeric order, antisymmetry and transitivity on generated version strings (components 0..12, 99..101, years; product patch suffixes); at CLI level additions recommended for a banner version must be exactly those whose first-appeared version is numerically <= it.',
            'note': 'prefix-related and numerically equal versions only need the order axioms'},
    'C15': {'level': 'exploration', 'technique': 'Hypothesis peers rendered under all 36 option sets, cross-compared (metamorphic) and against the table reference; real process under 4 hash seeds', 'ref': 'DESIGN.md §4 C15',
            'text': 'Each generated peer is audited under every combination of -b, -v, -n, -l and -j/-jj; exit status, findings, level filtering (subsequence of lines), colour-stripped equality, JSON well-formedness/equality and repeatability are checked; a sample is run as the real process under PYTHONHASHSEED 0/1/2/12345 and must equal engine A byte for byte.',
            'note': 'recommendation section compared as a multiset between colour and no-colour'},
    'C17': {'level': 'exploration', 'technique': 'exhaustive enumeration of the knowledge tables as imported from the tree', 'ref': 'DESIGN.md §4 C17',
            'text': 'Every rating-database entry, every cross-reference from policies / probe tables / DHEat tables, every built-in policy (statically and through a standard audit of a peer configured as listed, with each optional host key) is checked; complete for the tables in the tree.',
            'note': 'broken-primitive patterns are listed in checks/c17.py; three SSH-1 entries are recorded findings'},
}

NOT_APPLICABLE = {p: 'check not built yet in this round (design in DESIGN.md §4); to be claimed when its check exists' for p in
                  ['C07', 'C08', 'C09', 'C13', 'C16', 'C18', 'C19']}

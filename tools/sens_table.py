#!/usr/bin/env python3
"""Writes the sensitivity tables of DESIGN.md §8 from mutants/*.json, the last `./check selftest all`
output (.work/selftest-all.txt) and seeded/*/meta.json."""
import json
import os
import re

HERE = os.path.dirname(os.path.dirname(os.path.abspath(__file__)))
res = {}
p = os.path.join(HERE, '.work', 'selftest-all.txt')
if os.path.exists(p):
    for l in open(p):
        m = re.match(r'^(C\d+)\s+(\S+)\s+exit=(\d+) (\S+)', l)
        if m:
            res[(m.group(1), m.group(2))] = m.group(4)
out = ['| property | mutants (hand-written, `mutants/<ID>.json`) | caught by `./check selftest <ID>` |', '|---|---|---|']
tot = caught = 0
for f in sorted(os.listdir(os.path.join(HERE, 'mutants'))):
    pid = f[:-5]
    ms = json.load(open(os.path.join(HERE, 'mutants', f)))
    names = [m['name'] for m in ms]
    c = sum(1 for n in names if res.get((pid, n)) == 'CAUGHT')
    tot += len(names)
    caught += c
    out.append('| %s | %s | %d / %d |' % (pid, ', '.join(names), c, len(names)))
out.append('| all | | %d / %d |' % (caught, tot))
out.append('')
out.append('| seeded change (independent sub-agent) | what it needs in order to manifest | detected by (quick tier, signatures) |')
out.append('|---|---|---|')
for d in sorted(os.listdir(os.path.join(HERE, 'seeded'))):
    meta = json.load(open(os.path.join(HERE, 'seeded', d, 'meta.json')))
    needs = re.sub(r'\s+', ' ', meta.get('needs', ''))[:260]
    det = []
    for c, r in meta.get('results', {}).items():
        det.append('%s: %s' % (c, 'MISSED' if r['exit'] != 1 else '; '.join(s[:60] for s in r['signatures'][:2])))
    out.append('| %s | %s | %s |' % (d, needs.replace('|', '/'), ' / '.join(det).replace('|', '/')))
print('\n'.join(out))

#!/usr/bin/env python3
"""Diagnostic: which lines inside functions of /repo/src/ssh_audit are reached by the checks.
usage: tools/cov_report.py <covdir> [--by-check]   (covdir/<CHECK>/<pid>.json written with VERIF_COV=covdir/<CHECK>)"""
import glob
import json
import os
import sys
import types

SRC = os.path.join(os.environ.get('VERIF_REPO_ROOT', '/repo'), 'src', 'ssh_audit')


def func_lines(path):
    """{line: qualified function name} for every executable line inside a function body."""
    src = open(path).read()
    top = compile(src, path, 'exec')
    out = {}

    def walk(code, qual, infunc):
        for c in code.co_consts:
            if isinstance(c, types.CodeType):
                isfunc = not (c.co_flags & 0) and c.co_name not in ('<module>',)
                # class bodies are code objects too: recognise them by the __qualname__ store
                isclass = '__qualname__' in c.co_names and '__module__' in c.co_names
                q = (qual + '.' if qual else '') + c.co_name
                if not isclass:
                    for _, _, ln in c.co_lines():
                        if ln is not None and ln != c.co_firstlineno:
                            out.setdefault(ln, q)
                walk(c, q, infunc or not isclass)
    walk(top, '', False)
    return out


def main():
    covdir = sys.argv[1]
    per = {}
    for d in sorted(os.listdir(covdir)):
        s = set()
        for f in glob.glob(os.path.join(covdir, d, '*.json')):
            s.update(tuple(x) for x in json.load(open(f)))
        per[d] = s
    allc = set().union(*per.values()) if per else set()
    tot = hit = 0
    for fn in sorted(os.listdir(SRC)):
        if not fn.endswith('.py'):
            continue
        fl = func_lines(os.path.join(SRC, fn))
        if not fl:
            continue
        covd = {ln for (f, ln) in allc if f == fn}
        miss = sorted(ln for ln in fl if ln not in covd)
        tot += len(fl)
        hit += len(fl) - len(miss)
        print('%-28s %4d/%4d function lines reached' % (fn, len(fl) - len(miss), len(fl)))
        byf = {}
        for ln in miss:
            byf.setdefault(fl[ln], []).append(ln)
        for q, lns in sorted(byf.items(), key=lambda kv: kv[1][0]):
            print('      %-50s %s' % (q, ranges(lns)))
    print('TOTAL %d/%d' % (hit, tot))
    if '--by-check' in sys.argv:
        for d, s in per.items():
            print(d, len(s))


def ranges(l):
    out = []
    a = b = l[0]
    for x in l[1:]:
        if x == b + 1:
            b = x
        else:
            out.append((a, b)); a = b = x
    out.append((a, b))
    return ' '.join('%d' % a if a == b else '%d-%d' % (a, b) for a, b in out)


main()

#!/usr/bin/env python3
"""Regenerates /verif/MANIFEST.json from the table below (single source of truth for the interface)."""
import json
import os

HERE = os.path.dirname(os.path.dirname(os.path.abspath(__file__)))

BASELINE = "cd /repo && /venv/bin/python -m pytest -ra -q -p no:cacheprovider --timeout=900 --continue-on-collection-errors"

# id: (level category, technique, level text, level note, design ref)
CHECKS = {
}

NOT_YET = {
}


def load_table():
    import importlib.util
    spec = importlib.util.spec_from_file_location('manifest_table', os.path.join(HERE, 'tools', 'manifest_table.py'))
    m = importlib.util.module_from_spec(spec)
    spec.loader.exec_module(m)
    return m


def main():
    t = load_table()
    checks = []
    for pid in sorted(t.CHECKS):
        c = t.CHECKS[pid]
        checks.append({
            'property_id': pid,
            'quick_cmd': './check %s --tier quick' % pid,
            'thorough_cmd': './check %s --tier thorough' % pid,
            'evidence_file': '/verif/evidence/%s.json' % pid,
            'replay_cmd_template': './check %s --replay {path}' % pid,
            'engine': c.get('engine', 'engine-A'),
            'level_claimed': {'category': c['level'], 'text': c['text'], 'design_ref': c['ref']},
            'level_note': c['note'],
            'technique': c['technique'],
        })
    m = {
        'version': 1,
        'setup_cmd': './setup.sh',
        'hooks': {
            'guard': 'SSH_AUDIT_VERIF',
            'enable': 'no source hooks are needed: checks import /repo/src as it is and replace only stdlib entry points (socket.socket, socket.getaddrinfo, select.select, ssh_audit.dheat.time) at run time; the guard name is declared but unused',
            'baseline_off_cmd': BASELINE,
            'source_commits': t.SOURCE_COMMITS,
            'add_only': True,
        },
        'engines': t.ENGINES,
        'checks': checks,
        'notes': t.NOTES,
        'not_applicable': [{'property_id': p, 'reason': r} for p, r in sorted(t.NOT_APPLICABLE.items())],
    }
    with open(os.path.join(HERE, 'MANIFEST.json'), 'w') as f:
        json.dump(m, f, indent=1)
    print('MANIFEST.json: %d checks, %d not_applicable' % (len(checks), len(m['not_applicable'])))


if __name__ == '__main__':
    main()

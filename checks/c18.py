"""C18 — the tool connects to, and reports on, exactly the target that was named.

Engine A with a synthetic resolver: every resolver call and every connection attempt is logged by
the virtual network and compared with a reference target grammar."""
import json
import os
import socket

from hypothesis import strategies as st

from vlib import fakenet, drive, report
from vlib.runner import mkres

ID = 'C18'
AF4, AF6 = int(socket.AF_INET), int(socket.AF_INET6)
V4S = ['192.0.2.10', '10.1.2.3', '127.0.0.1', '203.0.113.255']
V6S = ['2001:db8::1', '::1', 'fe80::1234:5678:9abc:def0', '2001:0db8:0000:0000:0000:ff00:0042:8329', '2001:db8:0:0:1:0:0:1', '1:2:3:4:5:6:7::', '::2:3:4:5:6:7:8', '2001:db8::', '::ffff:192.0.2.128']
POLICY = 'Hardened OpenSSH Server v9.9 (version 1)'
NAMES = ['host.example', 'srv-01', 'a.b.c.example.org', 'localhost', 'xn--nxasmq6b.example', 'b\u00fccher.example', 'm\u00fcnchen.example.org', '\u4f8b\u3048.example', 'cafe.de', 'dead.beef', 'abc.be', 'f00d.cafe', 'a.b.c', 'deadbeef']


def spell(host, port, spelling):
    if spelling == 'host':
        return host
    if spelling == 'host:port':
        return '%s:%d' % (host, port)
    if spelling == '[host]':
        return '[%s]' % host
    if spelling == '[host]:port':
        return '[%s]:%d' % (host, port)
    raise ValueError(spelling)


def label_text(host, port):
    if port == 22:
        return host
    return ('[%s]:%d' if ':' in host else '%s:%d') % (host, port)


def setup_net(case):
    net = fakenet.FakeNet()
    srv = fakenet.Server({'hostkeys': {'ssh-ed25519': {'t': 'ed25519'}}})
    srv1 = fakenet.peer_from_spec({'proto': 1})       # a protocol-1 server (reached through the version-mismatch fallback)
    targets = case['targets']
    names = sorted({t['host'] for t in targets})
    for t in targets:
        host, port = t['host'], t['eport']
        hx = names.index(host)          # every host name of a case gets addresses of its own
        if ':' in host or host[0].isdigit():
            ips = [(AF6 if ':' in host else AF4, host)]
        else:
            r = t['resolver']
            v4, v6 = (AF4, '198.51.100.%d' % (1 + hx * 40 + abs(hash_str(host)) % 40)), (AF6, '2001:db8:aaaa::%x:%x' % (hx + 1, 1 + abs(hash_str(host)) % 60000))
            v4b, v6b = (AF4, '198.51.100.%d' % (201 + hx * 10 + abs(hash_str(host)) % 10)), (AF6, '2001:db8:bbbb::%x:%x' % (hx + 1, 1 + abs(hash_str(host)) % 60000))
            ll = (AF6, 'fe80::5:%x:%x' % (hx + 1, 1 + abs(hash_str(host)) % 60000))       # a link-local address: the resolver's answer carries the interface (scope id)
            net.scopes[ll[1]] = 2 + abs(hash_str(host)) % 5
            ips = {'v4': [v4], 'v6': [v6], 'both46': [v4, v6], 'both64': [v6, v4], 'mixed464': [v4, v6, v4b], 'mixed646': [v6, v4, v6b], 'many': [v6, v6b, v4, v4b], 'linklocal': [ll], 'linklocal+v4': [ll, v4]}[r]
            net.resolve[host] = ips
            if case.get('resolver_hiccup'):
                net.transient_failures[host] = 1
        for af, ip in ips:
            if 1 <= port <= 65535:
                net.servers[(ip, port)] = srv1 if t.get('ssh1') else srv
    return net, srv


def hash_str(s):
    h = 0
    for ch in s:
        h = (h * 131 + ord(ch)) & 0xffffff
    return h


def eval_case(case):
    fam = case['fam']
    targets = case['targets']
    fails = []
    net, srv = setup_net(case)
    argv = ['-n'] + (['-j'] if case['json'] else []) + (fam.split() if fam else []) + (['--skip-rate-test'] if not case.get('rate') else []) + list(case.get('view') or [])
    if case['p_opt'] is not None:
        argv += ['-p', str(case['p_opt'])]
    if case.get('policy'):
        argv += ['-P', POLICY]
    path = None
    if case['where'] == 'file':
        lines = []
        for i, t in enumerate(targets):
            if case.get('noise'):
                lines.append(['', '   ', '\t'][i % 3])
            lines.append((('  ' if case.get('noise') else '') + t['text'] + ('  ' if case.get('noise') and i % 2 else '')))
        if case.get('padding'):
            # a file far larger than any read buffer: thousands of blank and whitespace-only lines between the entries
            lines = [x for l in lines for x in ([l] + [' ' * (7 + i % 30) for i in range(case['padding'])])]
        text = '\n'.join(lines) + ('\n' if not case.get('noise') else '\n\n  \n')
        if case.get('noise') and len(targets) % 2 == 0:
            text = text.replace('\n', '\r\n')          # a targets file written on Windows
        if case.get('noise') and case['p_opt'] == 8022:
            text = text.rstrip('\r\n ')                 # no newline at the end of the last line
        path = drive.tmpfile(text)
        argv += ['-T', path, '--threads', '1']
    else:
        argv += [targets[0]['text']]
    try:
        r = drive.run_cli(argv, net)
    finally:
        if path:
            os.unlink(path)
    invalid = [t for t in targets if not (1 <= t['eport'] <= 65535)] or (case['p_opt'] is not None and not (1 <= case['p_opt'] <= 65535))
    cl = (['resolver-hiccup'] if case.get('resolver_hiccup') else []) + (['padded-file'] if case.get('padding') else []) + (['non-ascii-name'] if any(ord(ch) > 127 for t in targets for ch in t['host']) else []) + (['view:' + ' '.join(case['view'])] if case.get('view') else []) + (['link-local'] if any(t.get('resolver', '').startswith('linklocal') and not (':' in t['host'] or t['host'][0].isdigit()) for t in targets) else []) + (['has-ssh1-target'] if any(t.get('ssh1') for t in targets) else []) + ['where:' + case['where'], 'fam:' + (fam or 'none'), 'json' if case['json'] else 'text', 'policy-audit' if case.get('policy') else 'standard-audit'] + ['spell:' + t['spelling'] for t in targets[:1]] + (['invalid-port'] if invalid else []) + (['-p'] if case['p_opt'] is not None else [])
    v6 = any(':' in t['host'] for t in targets)
    nt = v6 or bool(fam) or (case['where'] == 'file' and case['p_opt'] is not None) or bool(invalid)
    if r.hang:
        fails.append(['hang', r.brief()])
        return mkres(case, nt=nt, classes=cl, fails=fails)
    if invalid:
        bad_hosts = {t['host'] for t in targets if not (1 <= t['eport'] <= 65535)} if not isinstance(invalid, bool) else {t['host'] for t in targets}
        bad_ips = {ip for h in bad_hosts for _, ip in (net.resolve.get(h) or [(0, h)])}
        bad_conn = [c for c in net.connects if c[2] in bad_ips]
        if bad_conn:
            fails.append(['connection-attempt-despite-invalid-port', 'argv %r: connects %r' % (argv, bad_conn[:3])])
        if r.code == 0:
            fails.append(['invalid-port-exit-0', 'argv %r' % argv])
        return mkres(case, nt=nt, classes=cl, fails=fails)
    if r.exc:
        fails.append([drive.crash_sig(r), r.brief()])
        return mkres(case, nt=nt, classes=cl, fails=fails)
    hosts = {t['host'] for t in targets}
    order = []      # requested families in order of first mention ("-44" and "-4 -4" say no more than "-4")
    for ch in fam:
        if ch in '46' and ch not in order:
            order.append(ch)
    allowed = {{'4': AF4, '6': AF6}[ch] for ch in order} or {AF4, AF6}
    unusable = [t for t in targets if not [a for a, _ in (net.resolve.get(t['host']) or [(AF6 if ':' in t['host'] else AF4, t['host'])]) if a in allowed]]
    if unusable:
        # no address of a requested family: nothing may be dialled for that target and the run cannot be clean
        ips = {ip for t in unusable for _, ip in (net.resolve.get(t['host']) or [(0, t['host'])])}
        if [c for c in net.connects if c[2] in ips]:
            fails.append(['connection-with-excluded-family', 'argv %r: %r' % (argv, net.connects[:3])])
        if r.code == 0:
            fails.append(['no-usable-address-exit-0', 'argv %r' % argv])
        return mkres(case, nt=nt, classes=cl + ['no-usable-address'], fails=fails)
    # resolver calls name exactly the hosts given
    for h, p, f in net.gai_calls:
        if h not in hosts:
            sig = 'resolver-asked-for-other-name'
            fails.append([sig, 'argv %r: getaddrinfo(%r)' % (argv, h)])
    # connection attempts: right address, family and port
    by_target = {}
    audit_conns = {}
    for sid, af, ip, port, nb in net.connects:
        owner = None
        for t in targets:
            ips = net.resolve.get(t['host']) or [(AF6 if ':' in t['host'] else AF4, t['host'])]
            if (af, ip) in [(a, i) for a, i in ips] and port == t['eport']:
                owner = t
        if owner is None:
            fails.append(['connection-to-wrong-address-or-port', 'argv %r: connect family %d %s port %d; targets %r' % (argv, af, ip, port, [(t['host'], t['eport']) for t in targets])])
            continue
        if af not in allowed:
            fails.append(['connection-with-excluded-family', 'argv %r: family %d' % (argv, af)])
        by_target.setdefault(owner['text'], []).append(af)
        if not nb:
            audit_conns.setdefault(owner['text'], []).append(af)
    # the socket address handed to connect() is the one the resolver gave: an IPv6 address keeps its flow and scope fields
    seen_sig = set()
    for a, c in zip(net.connect_addrs, net.connects):
        if ':' in a[0] and (a[3] if len(a) == 4 else 0) != net.scopes.get(a[0], 0):
            sig = 'rate-check-connection-without-ipv6-scope-id' if c[4] else 'ipv6-socket-address-not-the-resolvers'
            if sig not in seen_sig:
                seen_sig.add(sig)
                fails.append([sig, 'argv %r: connect(%r), the resolver answered scope id %d' % (argv, a, net.scopes.get(a[0], 0))])
    for t in targets:
        ips = net.resolve.get(t['host']) or [(AF6 if ':' in t['host'] else AF4, t['host'])]
        usable = [a for a, _ in ips if a in allowed]
        got = by_target.get(t['text'], [])
        if usable and not got and not fails and case.get('resolver_hiccup') and r.code not in (0, 2, 3):
            continue        # the resolver was briefly unavailable: giving up on the target (with a failing status) is one of the two honest outcomes
        if usable and not got and not fails:
            fails.append(['no-connection-attempt-to-named-target', 'argv %r target %r (exit %d, out %r)' % (argv, t['text'], r.code, r.out[-200:])])
        if got and len(order) == 2 and len(set(usable)) == 2:
            pref = AF4 if order[0] == '4' else AF6
            if got[0] != pref:
                fails.append(['preferred-family-not-tried-first', 'argv %r: first attempt family %d, preferred %d' % (argv, got[0], pref)])
            elif any(a != pref for a in audit_conns.get(t['text'], [])):     # (the rate check dials a single address; only family membership is required there)
                # each later connection (host-key / group-exchange probes) is a first attempt again
                fails.append(['preferred-family-not-used-by-later-connections', 'argv %r: families of the audit connections %r, preferred %d' % (argv, audit_conns.get(t['text']), pref)])
    # labels
    if case.get('resolver_hiccup') and any(not by_target.get(t['text']) for t in targets):
        return mkres(case, nt=nt, classes=cl + ['target-given-up-after-resolver-failure'], fails=fails)     # (what is printed for a target that could not be reached is C08's)
    if case.get('policy'):
        if case['json']:
            try:
                doc = json.loads(r.out)
                docs = doc if isinstance(doc, list) else [doc]
                labels = sorted(((d.get('host'), d.get('port')) for d in docs if isinstance(d, dict)), key=repr)      # (an element may lack them when a target could not be audited)
                want = sorted(((t['host'], t['eport']) for t in targets), key=repr)
                if labels != want and not fails:
                    fails.append(['policy-json-host-port', '%r vs %r' % (labels, want)])
            except ValueError:
                if not fails:
                    fails.append(['json-unparseable', r.out[-200:]])
        else:
            import re
            labels = sorted(m.strip() for m in re.findall(r'^Host:\s+(.*)$', report.strip_ansi(r.out), re.M))
            want = sorted(label_text(t['host'], t['eport']) for t in targets)
            if labels != want and not fails:
                fails.append(['policy-host-label', '%r vs %r' % (labels, want)])
    elif case['json']:
        try:
            doc = json.loads(r.out)
            docs = doc if isinstance(doc, list) else [doc]
            labels = sorted((d.get('target') for d in docs if isinstance(d, dict)), key=repr)
            want = sorted(('%s:%d' % (t['host'], t['eport']) for t in targets), key=repr)
            if labels != want and not fails:
                fails.append(['json-target-label', '%r vs %r' % (labels, want)])
        except ValueError:
            if not fails:
                fails.append(['json-unparseable', r.out[-200:]])
    elif case['where'] == 'file':
        labels = sorted(x for b in report.split_blocks(r.out) for x in (report.TextReport(b).gen.get('target') or []))
        want = sorted(label_text(t['host'], t['eport']) for t in targets)
        if labels != want and not fails:
            fails.append(['text-target-label', '%r vs %r' % (labels, want)])
    return mkres(case, nt=nt, classes=cl, fails=fails)


def strat_case():
    host = st.one_of(st.sampled_from(NAMES), st.sampled_from(V4S), st.sampled_from(V6S))
    port = st.one_of(st.sampled_from([1, 22, 2222, 65535]), st.integers(1, 65535))

    def target(t):
        h, p, sp, res = t
        v6 = ':' in h
        if v6:
            spelling = ['host', '[host]:port', '[host]'][sp % 3]
        else:
            spelling = ['host', 'host:port'][sp % 2]
        return {'host': h, 'port': p, 'spelling': spelling, 'resolver': res}
    tgt = st.tuples(host, port, st.integers(0, 5), st.sampled_from(['v4', 'v6', 'both46', 'both64', 'mixed464', 'mixed646', 'many', 'linklocal', 'linklocal+v4'])).map(target)

    def build(t):
        tg, where, p_opt, fam, js, noise, n_extra, rate, pol, view, extra = t
        targets = list(tg[:1 + (n_extra if where == 'file' else 0)])
        if where == 'file' and n_extra == 2 and len(targets) == 3:
            # the same host listed again on another port (a different target)
            h0 = targets[0]
            sp = '[host]:port' if ':' in h0['host'] else 'host:port'
            targets[2] = dict(h0, spelling=sp, port=(h0['port'] % 60000) + 1000)
            targets[0] = dict(h0, spelling=sp)
        out, seen = [], set()
        for x in targets:
            default = p_opt if p_opt is not None else 22
            eport = x['port'] if x['spelling'] in ('host:port', '[host]:port') else default
            if where == 'cli' and p_opt is not None and x['spelling'] in ('host:port', '[host]:port'):
                eport = x['port']     # "the port option as default": an explicit port in the target wins
            if (x['host'], eport) in seen:
                continue
            # one resolver answer per host name
            prev = [y for y in out if y['host'] == x['host']]
            if prev:
                x = dict(x, resolver=prev[0]['resolver'])
            seen.add((x['host'], eport))
            out.append(dict(x, eport=eport, text=spell(x['host'], x['port'], x['spelling'])))
        if where == 'file' and not pol and n_extra and (len(out[0]['host']) + out[0]['port']) % 3 == 0:
            out[0]['ssh1'] = True             # one of the listed servers speaks protocol 1 only
        if pol and '-l' in view and view[view.index('-l') + 1] != 'info':
            view = [x for x in view if x not in ('-l', 'warn', 'fail')]        # the lines of a policy verdict are informational ones: a minimum level hides them by definition
        c = {'targets': out, 'where': where, 'p_opt': p_opt, 'fam': fam, 'json': js, 'noise': noise and where == 'file', 'rate': rate and where == 'cli' and not js and not pol, 'policy': pol, 'view': view}
        if extra == 'hiccup':
            c['resolver_hiccup'] = True
        elif extra == 'padding' and where == 'file':
            c['padding'] = 1500
        return c
    return st.tuples(st.lists(tgt, min_size=3, max_size=3), st.sampled_from(['cli', 'cli', 'file']), st.one_of(st.none(), st.none(), st.sampled_from([22, 2222, 1, 65535, 8022])), st.sampled_from(['', '', '', '-4', '-6', '-46', '-64', '-4', '-6', '-46', '-64', '-44', '-66', '-4 -4', '-6 -6', '-4 -6', '-6 -4', '-4 -6 -4', '-6 -4 -6', '-446', '-664']),
                     st.booleans(), st.booleans(), st.integers(0, 2), st.sampled_from([False, False, False, True]), st.sampled_from([False, False, True]),
                     st.sampled_from([[], [], [], ['-l', 'warn'], ['-l', 'fail'], ['-b'], ['-v'], ['-b', '-l', 'fail'], ['-l', 'info']]), st.sampled_from([None] * 8 + ['hiccup', 'hiccup', 'padding'])).map(build)


def strat_invalid():
    def build(t):
        h, bad, where, how, js = t
        if how == 'p':
            tg = {'host': h, 'port': 22, 'spelling': 'host', 'resolver': 'both46', 'eport': bad, 'text': h}
            return {'targets': [tg], 'where': where, 'p_opt': bad, 'fam': '', 'json': js, 'noise': False}
        sp = '[host]:port' if ':' in h else 'host:port'
        tg = {'host': h, 'port': bad, 'spelling': sp, 'resolver': 'both46', 'eport': bad, 'text': spell(h, bad, sp)}
        ok = {'host': 'good.example', 'port': 22, 'spelling': 'host', 'resolver': 'v4', 'eport': 22, 'text': 'good.example'}
        # an invalid entry must stop the run before any connection, so it comes first in a file
        return {'targets': [tg] + ([ok] if where == 'file' else []), 'where': where, 'p_opt': None, 'fam': '', 'json': js, 'noise': False}
    return st.tuples(st.sampled_from(NAMES + V4S + V6S), st.sampled_from([0, 65536, 99999, -1, 70000]), st.sampled_from(['cli', 'file']), st.sampled_from(['p', 'spelling']), st.booleans()).filter(lambda t: not (t[3] == 'spelling' and t[1] < 0 and False)).map(build)


def valid_case(case):
    return len(case['targets']) >= 1


NO_SHRINK_KEYS = ('targets',)


def run(ctx):
    ctx.hyp('strat_case', 15000 if ctx.quick else 200000, label=1)
    ctx.hyp('strat_invalid', 1500 if ctx.quick else 10000, label=2)
    return ctx.finish('exploration', 'Hypothesis targets: host names, IPv4, IPv6 (compressed and full) x ports {1, 22, 2222, 65535, random} x spellings (host, host:port, bare IPv6, [IPv6], [IPv6]:port) x {command line, targets file of 1-3 lines with blank / whitespace-only lines and surrounding blanks} x -p absent/present x {-4, -6, -46, -64, the same flags repeated or split (-44, -4 -4, -4 -6 -4, -446 ...), none} x synthetic resolver answers (v4 only, v6 only, both in either order, 3-4 interleaved addresses); policy audits (Host: label, JSON host/port); invalid ports {0, 65536, 99999, 70000, -1} in -p and in the spelling; non-trivial = IPv6, a family option, a file line overriding -p, or an invalid port',
                      assumptions=['an explicit port in the target spelling wins over -p ("the port option as default")', 'rate-test sockets need only be of an allowed family (that phase dials a single address)'])

"""C06 — policy verdicts follow the documented matching rules.

Function level: policies are built from generated policy *text* (the parser is part of what is
tested), peers are SSH2_Kex objects; the oracle is a reference model written from the statement and
the README.  A sample goes through the whole CLI (-P file, text and JSON).
"""
import itertools
import json
import os

from hypothesis import strategies as st

from vlib import fakenet, drive, report
from vlib.runner import mkres

ID = 'C06'
S_MARK, C_MARK = 'kex-strict-s-v00@openssh.com', 'kex-strict-c-v00@openssh.com'
FIELDS = ('kex', 'key', 'enc', 'mac')
FIELD_TITLE = {'kex': 'Key exchanges', 'key': 'Host keys', 'enc': 'Ciphers', 'mac': 'MACs', 'comp': 'Compression', 'banner': 'Banner'}
POLICY_KEY = {'kex': 'key exchanges', 'key': 'host keys', 'enc': 'ciphers', 'mac': 'macs', 'comp': 'compressions', 'opt': 'optional host keys'}


def policy_text(pol):
    l = ['# generated', 'name = "t"', 'version = 1']
    if pol.get('subset'):
        l.append('allow_algorithm_subset_and_reordering = true')
    if pol.get('larger'):
        l.append('allow_larger_keys = true')
    if pol.get('client'):
        l.append('client policy = true')
    if pol.get('banner') is not None:
        l.append('banner = "%s"' % pol['banner'])
    for f in ('comp', 'key', 'opt', 'kex', 'enc', 'mac'):
        if pol.get(f) is not None:
            l.append('%s = %s' % (POLICY_KEY[f], ', '.join(pol[f])))
    if pol.get('legacy'):
        # the older directive syntax (still accepted, with a deprecation warning): one line per size, a
        # certificate's CA size right after its host-key size, as the older releases wrote them
        for t, e in (pol.get('hks') or {}).items():
            l.append('hostkey_size_%s = %d' % (t, e['hostkey_size']))
            if e.get('ca_key_size'):
                l.append('cakey_size_%s = %d' % (t, e['ca_key_size']))
        for a, sz in (pol.get('dh') or {}).items():
            l.append('dh_modulus_size_%s = %d' % (a, sz))
        return '\n'.join(l) + '\n'
    if pol.get('hks') is not None:
        l.append('host_key_sizes = ' + json.dumps(pol['hks']))
    if pol.get('dh') is not None:
        l.append('dh_modulus_sizes = ' + json.dumps(pol['dh']))
    return '\n'.join(l) + '\n'


def legacy_ca_type(hostkey_type):
    """The CA type the older directive syntax implies (it has no field for it)."""
    return 'ssh-rsa' if hostkey_type in ('ssh-rsa-cert-v01@openssh.com', 'rsa-sha2-256-cert-v01@openssh.com', 'rsa-sha2-512-cert-v01@openssh.com') else 'ssh-ed25519'


def mk_kex(peer):
    from ssh_audit.ssh2_kex import SSH2_Kex
    from ssh_audit.ssh2_kexparty import SSH2_KexParty
    from ssh_audit.outputbuffer import OutputBuffer
    p = SSH2_KexParty(list(peer['enc']), list(peer['mac']), list(peer.get('comp', ['none'])), [''])
    # the other direction (client-to-server) may advertise something else; policies are about the server-to-client lists
    pc = SSH2_KexParty(list(peer.get('enc_c', peer['enc'])), list(peer.get('mac_c', peer['mac'])), list(peer.get('comp_c', peer.get('comp', ['none']))), [''])
    k = SSH2_Kex(OutputBuffer(), b'\0' * 16, list(peer['kex']), list(peer['key']), pc, p, False, 0)
    for t, (sz, cat, cas) in (peer.get('hks') or {}).items():
        k.set_host_key(t, b'', sz, cat, cas)
    for t, sz in (peer.get('dh') or {}).items():
        k.set_dh_modulus_size(t, sz)
    return k


def ref_errors(pol, peer):
    """Reference model.  Returns (set of certain error fields, set of fields where the statement leaves the verdict open)."""
    errs, open_ = set(), set()
    subset, larger = bool(pol.get('subset')), bool(pol.get('larger'))
    if pol.get('banner') is not None and peer.get('banner') != pol['banner']:
        errs.add('Banner')
    if pol.get('comp') is not None and list(peer.get('comp', ['none'])) != pol['comp']:
        errs.add('Compression')
    for f in FIELDS:
        want = pol.get(f)
        if want is None:
            continue
        have = list(peer[f])
        if subset:
            extra = [x for x in have if x not in want]
            if f == 'key' and pol.get('opt') and extra and all(x in pol['opt'] for x in extra):
                open_.add(FIELD_TITLE[f])       # "drawn from the policy's list": required only, or required+optional
            elif extra:
                errs.add(FIELD_TITLE[f])
            if f == 'kex':
                for m in (S_MARK, C_MARK):
                    if m in want and m not in have:
                        errs.add(FIELD_TITLE[f])
        else:
            if f == 'key' and pol.get('opt') is not None:
                have = [x for x in have if x not in pol['opt']]
            if have != want:
                errs.add(FIELD_TITLE[f])
    for t, info in (pol.get('hks') or {}).items():
        if t not in (peer.get('hks') or {}):
            continue
        sz, cat, cas = peer['hks'][t]
        want = info['hostkey_size']
        if (sz < want) if larger else (sz != want):
            errs.add('Host key (%s) sizes' % t)
        wct, wcs = info.get('ca_key_type', ''), info.get('ca_key_size', 0)
        if wct and wcs > 0:
            if cat != wct:
                errs.add('CA signature type')
            elif (cas < wcs) if larger else (cas != wcs):
                errs.add('CA signature size (%s)' % cat)
    for a, want in (pol.get('dh') or {}).items():
        if a in (peer.get('dh') or {}):
            sz = peer['dh'][a]
            if (sz < want) if larger else (sz != want):
                errs.add('Group exchange (%s) modulus sizes' % a)
    return errs, open_


def evaluate(pol, peer):
    from ssh_audit.policy import Policy
    from ssh_audit.banner import Banner
    P = Policy(policy_data=policy_text(pol))
    b = Banner.parse(peer['banner']) if peer.get('banner') else None
    passed, errs, estr = P.evaluate(b, mk_kex(peer))
    return passed, errs, estr


def check_pair(pol, peer, fails, tag=''):
    try:
        passed, errs, estr = evaluate(pol, peer)
    except Exception as e:
        fails.append(['policy-evaluation-raised:%s' % type(e).__name__, '%r pol=%r peer=%r' % (e, pol, peer)])
        return None
    want, open_ = ref_errors(pol, peer)
    got = {e['mismatched_field'] for e in errs}
    if passed != (len(errs) == 0):
        fails.append(['passed-iff-no-errors', 'passed=%r errors=%r' % (passed, errs)])
    if (got - open_) != (want - open_) or not (got <= want | open_):
        kind = 'verdict' if bool(got - open_) != bool(want - open_) else 'error-fields'
        mode = ('subset' if pol.get('subset') else 'exact') + ('+larger' if pol.get('larger') else '')
        fails.append(['%s-mismatch-%s%s' % (kind, mode, tag), 'policy %r peer %r: tool errors %r, reference %r (open: %r)' % (pol, peer, sorted(got), sorted(want), sorted(open_))])
    # content of each error
    for e in errs:
        f = e['mismatched_field']
        for fk, title in FIELD_TITLE.items():
            if f == title and fk in FIELDS:
                if e['expected_required'] != pol[fk] or e['actual'] != list(peer[fk]):
                    fails.append(['error-content', '%r vs policy %r / peer %r' % (e, pol[fk], peer[fk])])
        if f.startswith('Host key ('):
            t = f[len('Host key ('):-len(') sizes')]
            if e['expected_required'] != [str(pol['hks'][t]['hostkey_size'])] or e['actual'] != [str(peer['hks'][t][0])]:
                fails.append(['error-content', repr(e)])
        if f.startswith('Group exchange ('):
            a = f[len('Group exchange ('):-len(') modulus sizes')]
            if e['expected_required'] != [str(pol['dh'][a])] or e['actual'] != [str(peer['dh'][a])]:
                fails.append(['error-content', repr(e)])
        if f not in estr:
            fails.append(['error-text-omits-field', '%r not in %r' % (f, estr)])
    return passed


def _shrunk_peers(peer, choices):
    """Metamorphic variants under subset mode: delete elements (never a strict marker)."""
    out = []
    for f, idxs in choices:
        lst = [x for i, x in enumerate(peer[f]) if i not in idxs or x in (S_MARK, C_MARK)]
        if len(lst) == 0:
            lst = ['']
        p2 = dict(peer)
        p2[f] = lst
        out.append(p2)
    return out


def eval_case(case):
    k = case['kind']
    fails = []
    if k in ('pair', 'full'):
        pol, peer = case['pol'], case['peer']
        passed = check_pair(pol, peer, fails)
        classes = [k, 'subset' if pol.get('subset') else 'exact'] + (['larger'] if pol.get('larger') else []) + (['opt'] if pol.get('opt') else [])
        want, open_ = ref_errors(pol, peer)
        classes.append('pass' if not want else 'fail:%d' % min(len(want), 3))
        nt = len(want) == 1 or pol.get('subset') or pol.get('larger') or bool(pol.get('opt'))
        if pol.get('legacy'):
            classes.append('legacy-size-directives')
            try:
                a = evaluate(pol, peer)
                b = evaluate({kk: v for kk, v in pol.items() if kk != 'legacy'}, peer)
                if (a[0], a[1]) != (b[0], b[1]):
                    fails.append(['older-size-directives-judged-differently', 'policy %r peer %r: %r vs %r' % (pol, peer, a[:2], b[:2])])
            except Exception as e:
                fails.append(['policy-evaluation-raised:%s' % type(e).__name__, repr(e)])
        if k == 'full' and passed:
            if pol.get('subset'):
                for p2 in _shrunk_peers(peer, case.get('del', [])):
                    # '' is how an empty name-list appears; the policy's own list never contains it unless empty
                    if any(p2[f] == [''] and pol.get(f) not in (None, ['']) for f in FIELDS):
                        continue
                    try:
                        ok, errs, _ = evaluate(pol, p2)
                    except Exception as e:
                        fails.append(['policy-evaluation-raised:%s' % type(e).__name__, repr(e)])
                        continue
                    if not ok:
                        fails.append(['shrinking-peer-under-subset-mode-fails', 'policy %r passed by %r but fails on subset %r: %r' % (pol, peer, p2, [e['mismatched_field'] for e in errs])])
            if pol.get('larger'):
                p2 = dict(peer)
                g = case.get('grow', 64)
                p2['hks'] = {t: [sz + g, cat, cas + (g if cas else 0)] for t, (sz, cat, cas) in (peer.get('hks') or {}).items()}
                p2['dh'] = {a: sz + g for a, sz in (peer.get('dh') or {}).items()}
                ok, errs, _ = evaluate(pol, p2)
                if not ok:
                    fails.append(['growing-keys-under-larger-mode-fails', 'policy %r passed by %r but fails after growing keys: %r' % (pol, peer, [e['mismatched_field'] for e in errs])])
        return mkres(case, nt=nt, classes=classes, fails=fails)
    if k == 'cli':
        pol, peer = case['pol'], case['peer']
        want, open_ = ref_errors(pol, peer)
        path = drive.tmpfile(policy_text(pol))
        try:
            for js in (False, True):
                spec = {'banner': peer.get('banner') or 'SSH-2.0-OpenSSH_9.0', 'kex': peer['kex'], 'key': peer['key'], 'enc': peer['enc'], 'mac': peer['mac'], 'comp': peer.get('comp', ['none'])}
                if peer.get('measured'):
                    # the sizes the policy speaks about are measured by the probes: the server answers them with keys / groups of those sizes
                    spec['banner'] = 'SSH-2.0-dropbear_2022.83'
                    spec['hostkeys'] = {k: {'t': 'rsa', 'bits': v[0]} for k, v in (peer.get('hks') or {}).items()}
                    spec['hostkeys']['ssh-ed25519'] = {'t': 'ed25519'}
                    spec['moduli_by_alg'] = {a: [sz] for a, sz in (peer.get('dh') or {}).items()}
                    spec['gex_style'] = 'roundup'
                net = fakenet.FakeNet()
                srv = fakenet.Server(spec)
                if pol.get('client'):
                    net.pending_clients.append(srv)
                    argv = ['-n', '-c', '-P', path]
                else:
                    net.add('h', 22, srv)
                    argv = ['-n', '--skip-rate-test', '-P', path, 'h']
                r = drive.run_cli(argv + (['-j'] if js else []), net)
                if r.exc:
                    fails.append([drive.crash_sig(r) + '-policy-audit', r.brief()])
                    continue
                expect_code = None if open_ else (3 if want else 0)
                if js:
                    doc = json.loads(r.out)
                    got = {e['mismatched_field'] for e in doc['errors']}
                    passed = doc['passed']
                else:
                    pr = report.policy_result(r.out)
                    got = set(pr['error_fields'])
                    passed = pr['passed']
                if expect_code is not None and r.code != expect_code:
                    fails.append(['cli-policy-exit-status', '%s: exit %d, reference %d (errors %r)' % ('json' if js else 'text', r.code, expect_code, sorted(want))])
                if passed is None or (r.code == 0) != bool(passed) or (r.code == 3) != (not passed):
                    fails.append(['cli-exit-status-vs-verdict', 'exit %d, verdict %r' % (r.code, passed)])
                if (got - open_) != (want - open_):
                    fails.append(['cli-policy-error-fields', '%s: %r vs reference %r' % ('json' if js else 'text', sorted(got), sorted(want))])
        finally:
            os.unlink(path)
        return mkres(case, nt=True, classes=['cli', 'pass' if not want else 'fail'], fails=fails)
    if k == 'cli-multi':
        # several peers judged against one policy in one invocation: every target keeps its own verdict and errors
        pol, peers = case['pol'], case['peers']
        refs = [ref_errors(pol, peer) for peer in peers]
        path = drive.tmpfile(policy_text(pol))
        tf = drive.tmpfile(''.join('s%d\n' % i for i in range(len(peers))))
        try:
            for js in (False, True):
                net = fakenet.FakeNet()
                for i, peer in enumerate(peers):
                    net.add('s%d' % i, 22, fakenet.Server({'banner': peer.get('banner') or 'SSH-2.0-OpenSSH_9.0', 'kex': peer['kex'], 'key': peer['key'], 'enc': peer['enc'], 'mac': peer['mac'], 'comp': peer.get('comp', ['none'])}))
                r = drive.run_cli(['-n', '--skip-rate-test', '--threads', str(case.get('threads', 1)), '-P', path, '-T', tf] + (['-j'] if js else []), net)
                if r.exc:
                    fails.append([drive.crash_sig(r) + '-policy-audit', r.brief()])
                    continue
                per = {}
                if js:
                    for doc in json.loads(r.out):
                        per[str(doc.get('host'))] = (doc.get('passed'), {e['mismatched_field'] for e in doc.get('errors', [])})
                else:
                    for blk in report.split_blocks(r.out):
                        pr = report.policy_result(blk)
                        if pr['host']:
                            per[pr['host'].split(':')[0]] = (pr['passed'], set(pr['error_fields']))
                worst = 0
                for i, (want, open_) in enumerate(refs):
                    got = per.get('s%d' % i)
                    if got is None:
                        fails.append(['cli-multi-target-without-verdict', '%s: no result for target %d of %d: %s' % ('json' if js else 'text', i + 1, len(peers), r.brief())])
                        continue
                    passed, fields = got
                    if passed != (len(fields) == 0):
                        fails.append(['cli-multi-passed-iff-no-errors', '%s: target %d of %d: passed=%r with errors %r' % ('json' if js else 'text', i + 1, len(peers), passed, sorted(fields))])
                    if (fields - open_) != (want - open_) or not (fields <= want | open_):
                        fails.append(['cli-multi-policy-error-fields', '%s: target %d of %d (%d thread(s)): %r vs reference %r' % ('json' if js else 'text', i + 1, len(peers), case.get('threads', 1), sorted(fields), sorted(want))])
                    if want - open_:
                        worst = 3
                if not any(o for _, o in refs) and r.code != worst:
                    fails.append(['cli-multi-exit-status', 'exit %d, reference %d' % (r.code, worst)])
        finally:
            os.unlink(path)
            os.unlink(tf)
        return mkres(case, nt=True, classes=['cli-multi', 'n:%d' % len(peers), 'threads:%d' % case.get('threads', 1), 'verdicts:' + ''.join('F' if w else 'P' for w, _ in refs)], fails=fails[:6])
    raise ValueError(k)


def valid_case(case):
    for side in ('pol', 'peer'):
        for f in FIELDS + ('comp', 'opt'):
            v = case.get(side, {}).get(f)
            if v is not None and (len(v) == 0 or (len(v) > 1 and '' in v)):
                return False
    return all(f in case.get('peer', {}) for f in FIELDS)


NO_SHRINK_KEYS = ('del',)


# ------------------------------------------------------------------------------------ generators

def small_lists(univ, maxlen):
    yield ['']
    for n in range(1, maxlen + 1):
        for t in itertools.product(univ, repeat=n):
            yield list(t)


def enumerate_universe():
    base = {'kex': ['k'], 'key': ['h'], 'enc': ['e'], 'mac': ['m']}
    UK = ['a', 'b', S_MARK]
    U = ['a', 'b', 'c']
    for subset in (False, True):
        for pol in small_lists(UK, 3):
            for peer in small_lists(UK, 3):
                yield {'kind': 'pair', 'pol': {'kex': pol, 'subset': subset}, 'peer': dict(base, kex=peer)}
        for f in ('enc', 'mac'):
            for pol in small_lists(U, 3):
                for peer in small_lists(U, 3):
                    yield {'kind': 'pair', 'pol': {f: pol, 'subset': subset}, 'peer': dict(base, **{f: peer})}
        for pol in small_lists(U, 2):
            for opt in [None] + list(small_lists(U, 2)):
                for peer in small_lists(U, 3):
                    yield {'kind': 'pair', 'pol': {'key': pol, 'opt': opt, 'subset': subset}, 'peer': dict(base, key=peer)}
    SZ = [1024, 2047, 2048, 3071, 3072, 4096]
    for larger in (False, True):
        for ps in SZ:
            for qs in SZ + [0, 1]:          # (0: a key whose probe got no usable answer is recorded with no size)
                yield {'kind': 'pair', 'pol': {'hks': {'ssh-rsa': {'hostkey_size': ps}}, 'larger': larger}, 'peer': dict(base, key=['ssh-rsa'], hks={'ssh-rsa': [qs, '', 0]})}
                yield {'kind': 'pair', 'pol': {'dh': {'g': ps}, 'larger': larger}, 'peer': dict(base, kex=['g'], dh={'g': qs})}
                for pct, qct in itertools.product(('ssh-rsa', 'ssh-ed25519'), repeat=2):
                    for hs in (3072, 2048):
                        yield {'kind': 'pair', 'pol': {'hks': {'c': {'hostkey_size': 3072, 'ca_key_type': pct, 'ca_key_size': ps}}, 'larger': larger}, 'peer': dict(base, key=['c'], hks={'c': [hs, qct, qs]})}


POL_BANNERS = ['SSH-2.0-OpenSSH_9.1', 'SSH-2.0-FooSSH_1.0 "beta"', 'SSH-2.0-x "', 'SSH-2.0-x \\', '', 'SSH-2.0-a=b', 'SSH-2.0-OpenSSH_9.1 Debian-1', '"', 'SSH-2.0-x #1', 'SSH-2.0-x "y" z', "SSH-2.0-x 'q'", 'SSH-1.99-x', 'SSH-2.0-']
PEER_BANNERS = [b for b in POL_BANNERS if b not in ('', '"')] + ['SSH-2.0-x', 'SSH-2.0-x "x', 'SSH-2.0-FooSSH_1.0 beta', 'SSH-2.0-OpenSSH_9.1 Debian-2']


def enumerate_banners():
    """The banner field: every policy banner against every peer banner (quotes, backslashes, '=', '#', the empty banner)."""
    base = {'kex': ['k'], 'key': ['h'], 'enc': ['e'], 'mac': ['m']}
    for pb in POL_BANNERS:
        for qb in PEER_BANNERS:
            yield {'kind': 'pair', 'pol': {'banner': pb}, 'peer': dict(base, banner=qb)}


def _db_names(cat):
    from ssh_audit.ssh2_kexdb import SSH2_KexDB
    return sorted(n for n in SSH2_KexDB.MASTER_DB[cat] if not n.endswith('*'))


def name_lists(cat):
    names = st.one_of(st.sampled_from(_db_names(cat)), st.text(alphabet='abcdefghijklmnopqrstuvwxyz0123456789-@.+/_', min_size=1, max_size=12).filter(lambda s: s.strip() == s))
    return st.lists(names, min_size=1, max_size=6, unique=True)


def strat_full():
    """Random large instances: peer first, policy derived from it by random edits so that passes and
    single-field failures are both frequent."""
    def build(t):
        peer_lists, flags, edits, sizes, dels, grow, comp_on, banner_on, legacy = t
        peer = {'kex': peer_lists[0], 'key': peer_lists[1], 'enc': peer_lists[2], 'mac': peer_lists[3], 'comp': ['none', 'zlib@openssh.com'][:1 + (edits[5] % 2)], 'banner': 'SSH-2.0-OpenSSH_9.%d' % (edits[6] % 3)}
        pol = {'subset': flags[0], 'larger': flags[1]}
        for i, f in enumerate(FIELDS):
            l = list(peer[f])
            e = edits[i] % 6
            if e == 1 and len(l) > 1:
                l = l[1:]                       # policy lacks one the peer has
            elif e == 2:
                l = l + ['extra-%s' % f]        # policy allows more
            elif e == 3 and len(l) > 1:
                l = l[::-1]                     # reordered
            elif e == 4:
                pol[f] = None
                continue
            pol[f] = l
        if edits[4] % 3 == 0 and len(peer['key']) > 1 and pol.get('key') is not None:
            pol['opt'] = [peer['key'][-1]]
            if edits[4] % 2 == 0:
                pol['key'] = [x for x in pol['key'] if x != peer['key'][-1]] or pol['key']
        if flags[2] and S_MARK not in peer['kex']:
            if pol.get('kex') is not None:
                pol['kex'] = pol['kex'] + [S_MARK]
            if flags[3]:
                peer['kex'] = peer['kex'] + [S_MARK]
        hks, phks, dh, pdh = {}, {}, {}, {}
        if sizes[0] % 2:
            ps = [2048, 3072, 4096][sizes[1] % 3]
            qs = ps + [0, 0, 1024, -1024][sizes[2] % 4]
            phks['ssh-rsa'] = [qs, '', 0]
            hks['ssh-rsa'] = {'hostkey_size': ps}
        if sizes[3] % 2:
            cs = [2048, 3072, 4096][sizes[4] % 3]
            cq = cs + [0, 0, 1024, -1024][sizes[5] % 4]
            ct = ['ssh-rsa', 'ssh-ed25519'][sizes[6] % 2]
            cq_t = ct if sizes[7] % 3 else ['ssh-rsa', 'ssh-ed25519'][(sizes[6] + 1) % 2]
            phks['ssh-ed25519-cert-v01@openssh.com'] = [256, cq_t, cq]
            hks['ssh-ed25519-cert-v01@openssh.com'] = {'hostkey_size': 256, 'ca_key_type': ct, 'ca_key_size': cs}
        if sizes[8] % 2:
            ds = [2048, 3072, 4096][sizes[9] % 3]
            dq = ds + [0, 0, 1024, -1024][sizes[10] % 4]
            pdh['diffie-hellman-group-exchange-sha256'] = dq
            dh['diffie-hellman-group-exchange-sha256'] = ds
        if hks:
            pol['hks'] = hks
            peer['hks'] = phks
        if dh:
            pol['dh'] = dh
            peer['dh'] = pdh
        if comp_on:
            pol['comp'] = ['none']
        if edits[0] % 4 == 0:
            # a second and third size entry; the peer may lack the algorithm of any of them
            extra_dh = {'diffie-hellman-group-exchange-sha1': [2048, 3072][sizes[1] % 2], 'diffie-hellman-group-exchange-sha256@ssh.com': 4096}
            pol['dh'] = dict(dh, **extra_dh)
            peer['dh'] = dict(pdh, **{k: v + [0, 1024, -1024][(sizes[2] + i) % 3] for i, (k, v) in enumerate(extra_dh.items()) if (sizes[3] + i) % 2})
            extra_hk = {'rsa-sha2-512': {'hostkey_size': 3072}, 'ssh-dss': {'hostkey_size': 1024}, ['rsa-sha2-512-cert-v01@openssh.com', 'ssh-rsa-cert-v01@openssh.com', 'rsa-sha2-256-cert-v01@openssh.com'][sizes[7] % 3]: {'hostkey_size': 3072, 'ca_key_type': ['ssh-rsa', 'ssh-rsa', 'ssh-ed25519'][sizes[9] % 3], 'ca_key_size': [4096, 3072, 256][sizes[9] % 3]}}
            pol['hks'] = dict(hks, **extra_hk)
            peer['hks'] = dict(phks, **{k: [v['hostkey_size'] + [0, 1024, -512][(sizes[4] + i) % 3], v.get('ca_key_type', ''), max(v['ca_key_size'] + [0, 0, -1024][(sizes[6] + i) % 3], 256) if v.get('ca_key_size') else 0] for i, (k, v) in enumerate(extra_hk.items()) if (sizes[5] + i) % 2})
        if edits[1] % 5 == 0:
            pol['client'] = True
        if edits[2] % 3 == 0:
            peer['enc_c'] = ['other-cipher'] + peer['enc'][:1]
            peer['mac_c'] = peer['mac'][::-1] + ['other-mac']
            peer['comp_c'] = ['zlib']
        if banner_on:
            pol['banner'] = 'SSH-2.0-OpenSSH_9.1'
        if legacy and (pol.get('hks') or pol.get('dh')) and all(legacy_ca_type(t) == e.get('ca_key_type', legacy_ca_type(t)) for t, e in (pol.get('hks') or {}).items() if e.get('ca_key_size')):
            pol['legacy'] = True
        return {'kind': 'full', 'pol': pol, 'peer': peer, 'del': [[f, idx] for f, idx in dels], 'grow': grow}
    return st.tuples(
        st.tuples(name_lists('kex'), name_lists('key'), name_lists('enc'), name_lists('mac')),
        st.tuples(st.booleans(), st.booleans(), st.booleans(), st.booleans()),
        st.lists(st.integers(0, 11), min_size=7, max_size=7),
        st.lists(st.integers(0, 11), min_size=11, max_size=11),
        st.lists(st.tuples(st.sampled_from(FIELDS), st.lists(st.integers(0, 5), min_size=1, max_size=3)), min_size=1, max_size=3),
        st.sampled_from([1, 64, 1024]), st.booleans(), st.booleans(), st.booleans()).map(build)


def run(ctx):
    uni = list(enumerate_universe()) + list(enumerate_banners())
    ctx.map(uni, chunk=500)
    ctx.exhaustive = True
    n = 40000 if ctx.quick else 400000
    ctx.hyp('strat_full', n, label=1)
    # CLI sample drawn deterministically from the enumerated universe
    sample = [c for c in uni if 'hks' not in c['pol'] and 'dh' not in c['pol']]
    ctx.rng.shuffle(sample)
    cli = []
    for c in sample[:150 if ctx.quick else 1500]:
        peer = dict(c['peer'])
        # a real peer cannot advertise an empty name inside a longer list; [''] (empty list) is fine
        cli.append({'kind': 'cli', 'pol': c['pol'], 'peer': peer})
    for c in sample[:40 if ctx.quick else 300]:
        if c['pol'].get('kex') is not None:
            pol = dict(c['pol'], client=True)
            pol['kex'] = [C_MARK if x == S_MARK else x for x in pol['kex']]
            peer = dict(c['peer'], kex=[C_MARK if x == S_MARK else x for x in c['peer']['kex']])
            cli.append({'kind': 'cli', 'pol': pol, 'peer': peer})
    # size directives through the CLI: the sizes come from the probes (policies with and without a key-exchange / host-key line)
    G256, G1 = 'diffie-hellman-group-exchange-sha256', 'diffie-hellman-group-exchange-sha1'
    for ps in (2048, 3072, 4096):
        for qs in (2048, 3072, 4096):
            for larger in (False, True):
                for with_lists in (False, True):
                    peer = {'kex': ['curve25519-sha256', G256, G1], 'key': ['rsa-sha2-512', 'ssh-ed25519'], 'enc': ['aes128-ctr'], 'mac': ['hmac-sha2-256'], 'measured': True,
                            'dh': {G256: qs, G1: qs}, 'hks': {'rsa-sha2-512': [qs, '', 0], 'rsa-sha2-256': [qs, '', 0], 'ssh-rsa': [qs, '', 0]}}
                    pol = {'dh': {G256: ps}, 'larger': larger}
                    if with_lists:
                        pol['kex'] = peer['kex']
                    cli.append({'kind': 'cli', 'pol': pol, 'peer': peer})
                    pol2 = {'hks': {'rsa-sha2-512': {'hostkey_size': ps}}, 'larger': larger}
                    if with_lists:
                        pol2['key'] = peer['key']
                    cli.append({'kind': 'cli', 'pol': pol2, 'peer': peer})
    # several peers against one policy in one -T run (each target's verdict and error list are its own)
    by_pol = {}
    for c in sample[:4000]:
        by_pol.setdefault(json.dumps(c['pol'], sort_keys=True), []).append(c['peer'])
    nm = 0
    for key in sorted(by_pol):
        peers = by_pol[key]
        if len(peers) < 3 or nm >= (60 if ctx.quick else 600):
            continue
        pol = json.loads(key)
        order = sorted(range(len(peers)), key=lambda i: (not ref_errors(pol, peers[i])[0], i))   # failing peers first
        pick = [peers[i] for i in (order[:2] + order[-2:])]
        if nm % 2:
            pick = pick[::-1]
        cli.append({'kind': 'cli-multi', 'pol': pol, 'peers': pick, 'threads': 1 + nm % 3 % 2})
        nm += 1
    ctx.map(cli)
    ctx.note(universe=len(uni), random_instances=n, cli_cases=len(cli), explanation='exhaustive flag refers to the small universe (all lists up to length 3 over 3 names incl. the strict marker, optional host-key lists up to length 2, size maps over 6 boundary values squared, both flags)')
    return ctx.finish('exploration', '(policy text, peer) pairs: exhaustive small universe per field, Hypothesis instances with all fields at once derived from the peer by random edits, metamorphic shrink/grow variants, CLI sample (text+JSON, server and client policies); non-trivial = exactly one field differs, or a flag is set, or an optional host-key list is present',
                      assumptions=['reference model in checks/c06.py::ref_errors follows the statement; where the statement leaves subset mode + optional host keys open, either verdict is accepted'])

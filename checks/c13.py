"""C13 — recommendations are consistent with the ratings shown (relations inside one report)."""
import json
import re

from hypothesis import strategies as st

from vlib import fakenet, drive, report, refmodel, gens
from vlib.runner import mkres

ID = 'C13'
CATS = ('kex', 'key', 'enc', 'mac')
BANNERS = {'OpenSSH': 'SSH-2.0-OpenSSH_%s', 'Dropbear SSH': 'SSH-2.0-dropbear_%s', 'libssh': 'SSH-2.0-libssh_%s', 'TinySSH': 'SSH-2.0-tinyssh_%s'}
UNVERSIONED = ['SSH-2.0-Cisco-1.25', 'SSH-2.0-RomSShell_5.40', 'SSH-2.0-mpSSH_0.2.1', 'SSH-2.0-lancom']
UNRECOGNISED = ['SSH-2.0-FooSSH_1.0', 'SSH-2.0-WeOnlyDo 2.4.3', 'SSH-2.0-', 'SSH-2.0-billsSSH_3.6.3q3']
OPENSSH_BUG_NOTE = 'A bug in OpenSSH causes it to fall back to a 2048-bit modulus'


def product_of(banner):
    sw = banner[len('SSH-2.0-'):]
    for p, fmt in BANNERS.items():
        pre = fmt[len('SSH-2.0-'):-2]
        if sw.startswith(pre):
            return p, sw[len(pre):]
    return None, None


def check_document(doc, lists, banner, fails):
    """The relations of the statement, inside one JSON report.  Returns (rated dict, recs, recognised, product)."""
    db = gens.db()
    jr = report.JsonReport(doc)
    recs = jr.recs()
    jset = {(a, c, n) for _, a, c, n, _ in recs}
    product, version = product_of(banner)
    recognised_versioned = product is not None
    recognised = recognised_versioned or banner in UNVERSIONED
    numeric = bool(version) and re.fullmatch(r'\d+(\.\d+)*', version or '') is not None
    rated = {}
    for c in CATS:
        for e in doc[c]:
            nf, nw = len(e['notes'].get('fail', [])), len(e['notes'].get('warn', []))
            rated[(c, e['algorithm'])] = (nf, nw, e['notes'])
    adv = {c: set(lists[c]) for c in CATS}
    # -- removals / changes
    for level, action, c, n, _ in recs:
        if action in ('del', 'chg'):
            if n not in adv[c]:
                fails.append(['removal-of-unadvertised-algorithm', '%s %s %s' % (action, c, n)])
                continue
            nf, nw, _ = rated.get((c, n), (0, 0, {}))
            if nf == 0 and nw == 0:
                fails.append(['removal-of-algorithm-without-fail-or-warn', '%s %s %s' % (action, c, n)])
            if (level == 'critical') != (nf > 0):
                fails.append(['level-critical-iff-failure', '%s %s %s: level %s, %d failure(s) %d warning(s)' % (action, c, n, level, nf, nw)])
        else:
            if n in adv[c]:
                fails.append(['addition-of-advertised-algorithm', '%s %s' % (c, n)])
            e = db[c].get(n)
            if e is None:
                fails.append(['addition-of-unknown-algorithm', '%s %s' % (c, n)])
                continue
            snf, snw = refmodel.static_faults(e)
            if snf or snw:
                fails.append(['addition-of-rated-algorithm', '%s %s: %r' % (c, n, e[1:3])])
            if (c == 'key' and ('-cert-' in n or n.startswith('sk-'))) or (c == 'kex' and (n.startswith('ext-info-') or n.startswith('kex-strict-'))):
                fails.append(['addition-of-certificate-token-or-pseudo-algorithm', '%s %s' % (c, n)])
            if refmodel.is_chacha(n) and c == 'enc' or (c == 'enc' and refmodel.is_cbc(n)) or (c == 'mac' and refmodel.is_etm(n)):
                fails.append(['addition-of-terrapin-class-algorithm', '%s %s' % (c, n)])
            if not recognised_versioned:
                fails.append(['addition-for-unrecognised-or-unversioned-software', '%s: %s %s' % (banner, c, n)])
            elif numeric and not refmodel.available_in(e, product, version):
                fails.append(['addition-not-available-in-identified-version', '%s %s: %s %s first appeared %r' % (product, version, c, n, e[0][0] if e[0] else None)])
            if level != 'informational':
                fails.append(['addition-level', '%s %s %s' % (level, c, n)])
    both = {(c, n) for a, c, n in jset if a == 'add'} & {(c, n) for a, c, n in jset if a in ('del', 'chg')}
    if both:
        fails.append(['recommended-both-ways', repr(sorted(both))])
    # -- completeness of removals
    if recognised:
        removed = {(c, n) for a, c, n in jset if a in ('del', 'chg')}
        for (c, n), (nf, nw, notes) in rated.items():
            if n == '' or (nf == 0 and nw == 0) or (c, n) in removed:
                continue
            e = refmodel.db_lookup(db, c, n)
            if e is None:
                continue              # unknown names: the database does not know them
            if any(OPENSSH_BUG_NOTE in t for t in notes.get('info', [])) and n == 'diffie-hellman-group-exchange-sha256':
                continue              # the report says this is outside the operator's control
            fv = refmodel.first_versions(e)
            if recognised_versioned:
                known = fv is None or (numeric and refmodel.available_in(e, product, version))
            else:
                known = True
            if known:
                sig = 'rated-algorithm-not-recommended-for-removal'
                fails.append([sig, '%s: %s %s has %d failure(s) %d warning(s), table versions %r, but no removal/change recommendation' % (banner, c, n, nf, nw, e[0])])
    else:
        if recs:
            fails.append(['recommendations-for-unrecognised-software', '%s: %r' % (banner, recs[:3])])
    return rated, recs, recognised, product


def eval_seq(case):
    """Several servers audited in one invocation: each report must satisfy the same relations on its own."""
    import os
    net = fakenet.FakeNet()
    hosts = []
    for i, sv in enumerate(case['servers']):
        h = 's%d' % i
        hosts.append(h)
        if sv.get('proto') == 1:
            net.add(h, 22, fakenet.peer_from_spec({'proto': 1, 'banner': sv['banner'], 'cmask': sv.get('cmask', 0x4c), 'amask': 0x0c}))
            continue
        spec = {'banner': sv['banner'], 'kex': sv['lists']['kex'], 'key': sv['lists']['key'], 'enc': sv['lists']['enc'], 'mac': sv['lists']['mac'], 'hostkeys': {'ssh-ed25519': {'t': 'ed25519'}}, 'moduli': sv.get('moduli', []), 'gex_style': sv.get('gex_style', 'roundup')}
        if sv.get('rsa_bits'):
            spec['hostkeys'].update({k: {'t': 'rsa', 'bits': sv['rsa_bits']} for k in ('ssh-rsa', 'rsa-sha2-256', 'rsa-sha2-512')})
        net.add(h, 22, fakenet.Server(spec))
    tf = drive.tmpfile('\n'.join(hosts) + '\n')
    try:
        r = drive.run_cli(['-n', '-j', '--skip-rate-test', '--threads', '1', '-T', tf], net)
    finally:
        os.unlink(tf)
    fails = []
    if r.exc or r.code not in (0, 2, 3):
        return mkres(case, nt=True, classes=['seq', 'crashed'], fails=[[drive.crash_sig(r) if r.exc else 'no-report', r.brief()]])
    docs = {d['target'].split(':')[0]: d for d in json.loads(r.out) if isinstance(d, dict) and 'target' in d}
    for i, sv in enumerate(case['servers']):
        if sv.get('proto') == 1:
            continue                # an SSH-1 peer is only there for what it may leave behind
        f2 = []
        check_document(docs['s%d' % i], sv['lists'], sv['banner'], f2)
        fails += [[sig, 'multi-target run, server %d of %d: %s' % (i + 1, len(case['servers']), d)] for sig, d in f2]
    return mkres(case, nt=True, classes=['seq', 'n:%d' % len(case['servers'])] + (['twins'] if case.get('twins') else []), fails=fails[:6])


def eval_case(case):
    if case.get('kind') == 'seq':
        return eval_seq(case)
    lists, banner = case['lists'], case['banner']
    spec = {'banner': banner, 'kex': lists['kex'], 'key': lists['key'], 'enc': lists['enc'], 'mac': lists['mac'], 'enc_c': case.get('enc_c'), 'mac_c': case.get('mac_c')}
    if case.get('probes'):
        spec['hostkeys'] = {k: {'t': 'rsa', 'bits': case['rsa_bits']} for k in ('ssh-rsa', 'rsa-sha2-256', 'rsa-sha2-512')}
        spec['hostkeys']['ssh-ed25519'] = {'t': 'ed25519'}
        spec['moduli'] = [case['gex_bits']]
        spec['gex_style'] = 'openssh' if case['gex_bits'] == 2048 else 'roundup'
        if case.get('cert_ca'):
            # RSA certificates under every name they go by: a large host key signed by a CA of its own size / kind
            ca = {'t': 'rsa', 'bits': case['cert_ca']} if isinstance(case['cert_ca'], int) else {'t': 'ecdsa', 'curve': case['cert_ca']}
            for k in ('ssh-rsa-cert-v01@openssh.com', 'rsa-sha2-256-cert-v01@openssh.com', 'rsa-sha2-512-cert-v01@openssh.com'):
                spec['hostkeys'][k] = {'t': 'cert', 'kind': 'ssh-rsa-cert-v01@openssh.com', 'bits': case.get('cert_bits', 4096), 'ca': ca}
    db = gens.db()
    fails = []
    outs = {}
    for rend in ('json', 'text'):
        net = fakenet.FakeNet()
        net.add('h', 22, fakenet.Server(spec))
        r = drive.run_cli(['-n'] + (['-j'] if rend == 'json' else []) + ['--skip-rate-test', 'h'], net)
        if r.exc or r.hang or r.code not in (0, 2, 3):
            fails.append([drive.crash_sig(r) if r.exc else 'no-report', r.brief()])
            return mkres(case, nt=True, classes=['crashed'], fails=fails)
        outs[rend] = r
    doc = json.loads(outs['json'].out)
    jr = report.JsonReport(doc)
    tr = report.TextReport(outs['text'].out)
    recs = jr.recs()                                   # (level, action, cat, name, notes)
    jset = {(a, c, n) for _, a, c, n, _ in recs}
    tset = {({'-': 'del', '+': 'add', '!': 'chg'}[s], c, n) for s, n, c, _, _ in tr.rec}
    if jset != tset:
        fails.append(['text-and-json-recommendations-differ', 'only json %r, only text %r' % (sorted(jset - tset)[:4], sorted(tset - jset)[:4])])
    rated, recs, recognised, product = check_document(doc, lists, banner, fails)
    n_rated = sum(1 for v in rated.values() if v[0] or v[1])
    nt = recognised and n_rated > 0
    cl = ['product:%s' % (product or ('unversioned' if recognised else 'unrecognised')), 'rated:%d' % min(n_rated, 5), 'recs:%d' % min(len(recs), 8)] + (['probes'] if case.get('probes') else []) + (['rsa-cert-ca:%s' % case['cert_ca']] if case.get('cert_ca') else []) + (['long-list'] if max(len(lists[c]) for c in CATS) > 250 else [])
    return mkres(case, nt=nt, classes=cl, fails=fails[:6])


def versions_of_interest():
    vs = {p: set() for p in BANNERS}
    for cat, d in gens.db().items():
        for name, e in d.items():
            for p, v, c in (refmodel.first_versions(e) or []):
                if p in vs and re.fullmatch(r'\d+(\.\d+)*', v):
                    t = list(refmodel.vtuple(v))
                    vs[p].add(v)
                    vs[p].add('.'.join(map(str, t[:-1] + [t[-1] + 1])))
                    if t[-1] > 0:
                        vs[p].add('.'.join(map(str, t[:-1] + [t[-1] - 1])))
    vs['OpenSSH'] |= {'10.0', '9.9p1', '8.2p1', '7.4p1', '12.1'}
    vs['Dropbear SSH'] |= {'2024.86', '2020.81'}
    vs['libssh'] |= {'0.10.6', '0.11.1', '0.9.8'}
    vs['TinySSH'] |= {'noversion', '20240101'}
    return {p: sorted(v) for p, v in vs.items()}


def strat_case():
    V = versions_of_interest()
    banners = [BANNERS[p] % v for p in BANNERS for v in V[p]]

    def build(t):
        kex, key, enc, mac, b1, b2, which, probes, rsa_bits, gex_bits, cert, filler = t
        banner = b1 if which < 8 else b2
        lists = {'kex': list(dict.fromkeys(kex)), 'key': list(dict.fromkeys(key)), 'enc': list(dict.fromkeys(enc)), 'mac': list(dict.fromkeys(mac))}
        case = {'lists': lists, 'banner': banner, 'probes': probes}
        if which % 3 == 0:
            # the client-to-server direction advertises different ciphers / MACs (the report is about server-to-client)
            case['enc_c'] = ['aes128-ctr'] + [x for x in lists['enc'] if not x.endswith('-cbc')][:1]
            case['mac_c'] = ['hmac-sha2-256'] + [x for x in lists['mac'] if not x.endswith('-etm@openssh.com')][:1]
        if probes:
            lists['kex'] = ['curve25519-sha256'] + [k for k in lists['kex'] if k != 'curve25519-sha256'] + (['diffie-hellman-group-exchange-sha256'] if 'diffie-hellman-group-exchange-sha256' not in lists['kex'] else [])
            lists['key'] = list(dict.fromkeys(lists['key'] + ['rsa-sha2-512', 'ssh-ed25519']))
            case.update(rsa_bits=rsa_bits, gex_bits=gex_bits)
            if cert is not None:
                lists['key'] = list(dict.fromkeys(['rsa-sha2-512-cert-v01@openssh.com', 'rsa-sha2-256-cert-v01@openssh.com'][: 1 + which % 2] + lists['key']))
                case.update(cert_ca=cert, cert_bits=[3072, 4096, 2048][which % 3])
        if filler:
            # a peer may advertise far more names than the table holds: a few hundred unknown ones in front of the known ones
            cat = CATS[which % 4]
            lists[cat] = ['filler-%03d@example.com' % i for i in range(filler)] + lists[cat]
        return case
    nl = lambda c: st.lists(gens.name(c, empty=False, weird=False), min_size=1, max_size=6)
    return st.tuples(nl('kex'), nl('key'), nl('enc'), nl('mac'), st.sampled_from(banners), st.sampled_from(UNVERSIONED + UNRECOGNISED), st.integers(0, 9), st.sampled_from([False, False, True]),
                     st.sampled_from([1024, 2048, 3072, 4096]), st.sampled_from([1024, 2048, 3072, 4096]), st.sampled_from([None, None, 1024, 2048, 3072, 4096, 'nistp256', 'nistp384']), st.sampled_from([0] * 25 + [255, 256, 257, 300, 520])).map(build)


def valid_case(case):
    if case.get('kind') == 'seq':
        return len(case['servers']) >= 2
    return all(len(case['lists'][c]) >= 1 for c in CATS)


NO_SHRINK_KEYS = ('servers',)


def strat_seq():
    """2-3 servers in one invocation; the first ones are chosen among those that make the tool record something
    (OpenSSH 2048-bit GEX fallback, small GEX modulus, Terrapin exposure)."""
    special = [
        {'banner': 'SSH-2.0-OpenSSH_8.0', 'lists': {'kex': ['curve25519-sha256', 'diffie-hellman-group-exchange-sha256'], 'key': ['ssh-ed25519'], 'enc': ['aes128-ctr'], 'mac': ['hmac-sha2-256']}, 'moduli': [], 'gex_style': 'openssh'},
        {'banner': 'SSH-2.0-OpenSSH_7.4', 'lists': {'kex': ['diffie-hellman-group-exchange-sha256', 'diffie-hellman-group-exchange-sha1'], 'key': ['ssh-ed25519'], 'enc': ['chacha20-poly1305@openssh.com', 'aes128-cbc'], 'mac': ['hmac-sha1-etm@openssh.com']}, 'moduli': [1024], 'gex_style': 'roundup'},
        {'banner': 'SSH-2.0-dropbear_2020.81', 'lists': {'kex': ['diffie-hellman-group-exchange-sha256'], 'key': ['ssh-ed25519', 'ssh-dss'], 'enc': ['3des-cbc', 'aes128-ctr'], 'mac': ['hmac-md5']}, 'moduli': [3072], 'gex_style': 'roundup'},
        # protocol-1 peers of recognised products (the two rating tables share a few names: none, des, 3des, blowfish)
        {'proto': 1, 'banner': 'SSH-1.5-OpenSSH_3.0', 'cmask': 0x4d},
        {'proto': 1, 'banner': 'SSH-1.99-dropbear_0.52', 'cmask': 0x4d},
    ]
    shared = [{'banner': b, 'lists': {'kex': ['curve25519-sha256'], 'key': ['ssh-ed25519'], 'enc': e, 'mac': ['hmac-sha2-256']}, 'moduli': []}
              for b in ('SSH-2.0-dropbear_2020.81', 'SSH-2.0-libssh_0.9.6', 'SSH-2.0-OpenSSH_8.4') for e in (['none', 'aes128-ctr'], ['3des', 'des', 'blowfish', 'aes128-ctr'], ['aes128-ctr', 'none', '3des-cbc'])]

    def build(t):
        first, rest = t
        if first % 11 == 5:
            # a long run of servers that all earn the same run-time notes (whatever accumulates across targets shows after ten of them)
            base = dict(special[first % 3])
            return {'kind': 'seq', 'servers': [dict(base) for _ in range(12 + first % 3)]}
        if first % 3 == 0:
            # twins: the same banner and the same name-lists on every server, only what the probes measure differs
            c = rest[0]
            lists = dict(c['lists'])
            lists['kex'] = ['curve25519-sha256'] + [k for k in lists['kex'] if k != 'curve25519-sha256'] + (['diffie-hellman-group-exchange-sha256'] if 'diffie-hellman-group-exchange-sha256' not in lists['kex'] else [])
            lists['key'] = list(dict.fromkeys(lists['key'] + ['rsa-sha2-512', 'ssh-ed25519']))
            sizes = [[1024, 2048, 4096], [4096, 1024, 2048], [2048, 4096, 1024], [4096, 2048, 1024], [1024, 4096, 2048], [2048, 1024, 4096]][(first // 3) % 6]
            moduli = [[3072], [1024], [4096], [2048]]
            n = 2 + len(rest) % 2
            return {'kind': 'seq', 'twins': True, 'servers': [{'banner': c['banner'], 'lists': lists, 'rsa_bits': sizes[i], 'moduli': moduli[(first // 18 + i * (1 + first % 2)) % 4], 'gex_style': 'roundup'} for i in range(n)]}
        servers = [special[first % len(special)]]
        if servers[0].get('proto') == 1:
            servers.append(shared[(first // len(special) + len(rest)) % len(shared)])
        for c in rest:
            lists = dict(c['lists'])
            lists['kex'] = lists['kex'] + ['diffie-hellman-group-exchange-sha256']
            servers.append({'banner': c['banner'], 'lists': lists, 'moduli': [3072, 1024, 2048][len(lists['mac']) % 3], 'gex_style': 'roundup'})
        servers = [dict(sv) for sv in servers]
        for sv in servers:
            if sv.get('proto') != 1 and not isinstance(sv.get('moduli'), list):
                sv['moduli'] = [sv['moduli']]
        return {'kind': 'seq', 'servers': servers}
    return st.tuples(st.integers(0, 44), st.lists(strat_case().filter(lambda c: not c.get('probes')), min_size=1, max_size=2)).map(build)


def run(ctx):
    ctx.hyp('strat_case', 20000 if ctx.quick else 250000, label=1)
    ctx.hyp('strat_seq', 1500 if ctx.quick else 20000, label=2)
    return ctx.finish('exploration', 'Hypothesis peers over the database (1-6 names per category, gss-* and unknown names mixed in, 1/3 with host-key and GEX probes answered at boundary sizes) x banners of OpenSSH / Dropbear / libssh / TinySSH at, just below and just above every first-appeared version in the table (plus multi-digit versions), recognised-but-unversioned products and unrecognised software; text and JSON; non-trivial = recognised product and at least one rated algorithm',
                      assumptions=['ratings are read from the same report (JSON notes); "knows in the identified version" = table entry has no version list or lists the product at a numerically <= version (server side)'])

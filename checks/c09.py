"""C09 — no peer can crash, hang or fool the auditor.

Fault enumeration over recorded transcripts: for each archetype a clean run records every message
each connection emits; then every (connection, message, fault) triple is injected and the outcome
is judged by invariants (documented status, bounded virtual waiting time, report iff status 0/2/3,
complete report iff the first handshake was well-formed by an independent strict parser).
"""
import json
import re
import struct

from hypothesis import strategies as st

from vlib import fakenet, drive, report, wire
from vlib.runner import mkres

ID = 'C09'
TIMEOUT = 5
HK_ED = {'ssh-ed25519': {'t': 'ed25519'}}
RSA = {k: {'t': 'rsa', 'bits': 3072} for k in ('ssh-rsa', 'rsa-sha2-256', 'rsa-sha2-512')}
ARCH = {
    'ed25519':  {'spec': {'kex': ['curve25519-sha256', 'diffie-hellman-group14-sha256'], 'key': ['ssh-ed25519'], 'enc': ['aes128-ctr', 'chacha20-poly1305@openssh.com'], 'mac': ['hmac-sha2-256', 'hmac-sha1'], 'hostkeys': HK_ED}, 'argv': []},
    'rsa-cert-gex': {'spec': {'kex': ['curve25519-sha256', 'diffie-hellman-group-exchange-sha256', 'diffie-hellman-group-exchange-sha1'], 'key': ['rsa-sha2-512', 'ssh-rsa', 'ssh-ed25519-cert-v01@openssh.com', 'ssh-rsa-cert-v01@openssh.com', 'ssh-ed25519'],
                              'enc': ['aes256-gcm@openssh.com', 'aes128-cbc'], 'mac': ['hmac-sha2-512-etm@openssh.com'],
                              'hostkeys': dict(RSA, **dict(HK_ED, **{'ssh-ed25519-cert-v01@openssh.com': {'t': 'cert', 'kind': 'ssh-ed25519-cert-v01@openssh.com', 'ca': {'t': 'rsa', 'bits': 4096}}, 'ssh-rsa-cert-v01@openssh.com': {'t': 'cert', 'kind': 'ssh-rsa-cert-v01@openssh.com', 'bits': 3072, 'ca': {'t': 'ecdsa', 'curve': 'nistp256'}}})),
                              'moduli': [2048, 4096], 'gex_style': 'openssh'}, 'argv': []},
    'gex-first': {'spec': {'banner': 'SSH-2.0-dropbear_2020.81', 'kex': ['diffie-hellman-group-exchange-sha256', 'curve25519-sha256'], 'key': ['ssh-rsa', 'ssh-ed25519'], 'enc': ['aes128-ctr'], 'mac': ['hmac-sha2-256'], 'hostkeys': dict(RSA, **HK_ED), 'moduli': [3072], 'gex_style': 'roundup'}, 'argv': []},
    'ssh1':     {'spec': {'proto': 1, 'cmask': 0x4c, 'amask': 0x2c}, 'argv': ['-1']},
    'ssh1-len8': {'spec': {'proto': 1, 'cmask': 0x4c, 'amask': 0x2c, 'hkey_bits': 1025}, 'argv': ['-1']},     # a public-key message whose packet length is a multiple of 8 (eight bytes of padding)
    'ssh1-fallback': {'spec': {'proto': 1, 'cmask': 0x4c, 'amask': 0x2c}, 'argv': [], 'hs_conn': 1},     # SSH-2 attempt answered with 'Protocol major versions differ.', then SSH-1
    'always-differ': {'spec': {'proto': 1, 'always_differ': True}, 'argv': [], 'hs_conn': 1, 'no_report': True},     # answers every attempt, also the SSH-1 retry, with the version-mismatch text
    'client':   {'spec': {'banner': 'SSH-2.0-OpenSSH_9.0', 'kex': ['curve25519-sha256', 'kex-strict-c-v00@openssh.com'], 'key': ['ssh-ed25519', 'rsa-sha2-512'], 'enc': ['aes128-ctr'], 'mac': ['hmac-sha2-256']}, 'argv': ['-c'], 'client': True},
    'policy':   {'spec': {'kex': ['curve25519-sha256'], 'key': ['rsa-sha2-512', 'ssh-ed25519'], 'enc': ['aes128-ctr'], 'mac': ['hmac-sha2-256'], 'hostkeys': dict(RSA, **HK_ED)}, 'argv': ['-P', 'Hardened OpenSSH Server v9.9 (version 1)']},
    'json':     {'spec': {'kex': ['curve25519-sha256', 'diffie-hellman-group-exchange-sha256'], 'key': ['ssh-ed25519', 'rsa-sha2-256'], 'enc': ['aes128-ctr'], 'mac': ['hmac-sha2-256'], 'hostkeys': dict(RSA, **HK_ED), 'moduli': [2048], 'gex_style': 'strict'}, 'argv': ['-j']},
}
BANNER_RX = re.compile(rb'^SSH-(1\.99|2\.0|1\.\d{1,9})-[\x21-\x7e]*( [\x20-\x7e]*)?\r?$')
TYPES = [0, 1, 2, 4, 20, 21, 30, 31, 32, 33, 34, 255]


def run_arch(name, faults, segment=0, extra_argv=()):
    a = ARCH[name]
    spec = dict(a['spec'], faults=faults)
    peer = fakenet.peer_from_spec(spec)
    net = fakenet.FakeNet(segment=segment)
    argv = ['-n'] + list(a['argv']) + list(extra_argv)
    if a.get('client'):
        net.pending_clients.append(peer)
    else:
        net.add('h', 22, peer)
        argv += ['--skip-rate-test', 'h']
    r = drive.run_cli(argv, net)
    return r, net, peer


_clean = {}


def clean_transcript(name):
    """[(conn idx, what, raw bytes, payload or None)] of a fault-free run."""
    if name not in _clean:
        r, net, peer = run_arch(name, [])
        msgs = []
        for c in peer.conns:
            for what, data in c.emitted:
                payload = None
                if what not in ('banner', 'differ', 'pkm'):
                    payload, _ = wire.check_packet_framing(data)
                msgs.append((c.idx, what, data, payload))
        _clean[name] = (msgs, r.code)
    return _clean[name]


_LAST = {}


def first_handshake_status(conn, proto):
    """Judge what connection 0 actually delivered with an independent parser.
    -> 'wellformed' | 'decodable' (a first message can be decoded but something is off) | 'broken'"""
    data = b''.join(d for _, d in conn.emitted) if conn is not None else b''
    _LAST.clear()
    pos = 0
    line = None
    while True:
        i = data.find(b'\n', pos)
        if i < 0:
            return 'broken'                      # no complete line starting SSH- ever arrived
        cand = data[pos:i]
        pos = i + 1
        if cand.startswith(b'SSH-'):
            line = cand
            break
    banner_ok = BANNER_RX.match(line) is not None
    if not banner_ok and re.match(rb'^SSH-\d\.\s*?\d+', line) is None:
        return 'broken'
    rest = data[pos:]
    if proto == 1:
        if len(rest) < 4:
            return 'broken'
        length = struct.unpack('>I', rest[:4])[0]
        total = 4 + (8 - length % 8) + length
        try:
            t, body = wire.ssh1_parse_packet(rest[:total])
        except (ValueError, struct.error, IndexError):
            return 'broken'
        if t != 2:
            return 'broken'
        try:
            rd = wire.Reader(body)
            rd.take(8)
            rd.u32()
            for _ in range(2):
                bits = struct.unpack('>H', rd.take(2))[0]
                rd.take((bits + 7) // 8)
            rd.u32()
            for _ in range(2):
                bits = struct.unpack('>H', rd.take(2))[0]
                rd.take((bits + 7) // 8)
            rd.u32()
            rd.u32()
            rd.u32()
            strict = not rd.rest()
        except (ValueError, struct.error):
            return 'broken'
        return 'wellformed' if (strict and banner_ok) else 'decodable'
    raws, left = wire.split_packets(rest)
    if not raws:
        return 'broken'
    payload, problems = wire.check_packet_framing(raws[0])
    if payload is None or len(payload) == 0 or payload[0] != 20:
        return 'broken'
    try:
        parsed = wire.parse_kexinit(payload, strict=True)
        strict = not problems
    except ValueError:
        strict = False
        try:
            parsed = wire.parse_kexinit(payload, strict=False)
        except ValueError:
            return 'broken'
    _LAST['kexinit'] = parsed
    # names must be RFC 4251 names (no blanks / control characters): a mutated name that contains a newline is
    # decodable but no longer something the text report can be expected to show on one line
    for f in ('kex', 'key', 'enc_s2c', 'mac_s2c'):
        if any(b <= 0x20 or b == 0x7f for n in parsed[f] for b in n):
            return 'decodable'
    return 'wellformed' if (strict and banner_ok) else 'decodable'


def has_report(out, argv):
    if '-j' in argv:
        try:
            d = json.loads(out)
            return isinstance(d, dict) and (('kex' in d) or ('enc' in d) or ('passed' in d))
        except ValueError:
            return False
    if '-P' in argv:
        return report.policy_result(out)['passed'] is not None
    return report.TextReport(out).has_algorithm_report()


def complete_report(out, name):
    a = ARCH[name]
    if '-P' in a['argv']:
        return report.policy_result(out)['passed'] is not None
    spec = a['spec']
    if spec.get('proto') == 1:
        tr = report.TextReport(out)
        return tr.names('enc') == [wire.SSH1_CIPHERS[i] for i in range(7) if spec['cmask'] >> i & 1] and tr.names('aut') == [wire.SSH1_AUTHS[i] for i in range(1, 7) if spec['amask'] >> i & 1]
    k = _LAST.get('kexinit')
    if k is None:
        return False
    dec = lambda f: [x for x in b','.join(k[f]).decode('utf-8', 'replace').split(',') if x != '']
    want = {'kex': dec('kex'), 'key': dec('key'), 'enc': dec('enc_s2c'), 'mac': dec('mac_s2c')}
    if '-j' in a['argv']:
        try:
            d = json.loads(out)
        except ValueError:
            return False
        return all([e['algorithm'] for e in d.get(c, []) if e['algorithm'] != ''] == want[c] for c in ('kex', 'key', 'enc', 'mac'))
    tr = report.TextReport(out)
    return all(tr.names(c) == want[c] for c in ('kex', 'key', 'enc', 'mac'))


def eval_ab(case):
    """Engine B replay of a fault case: the real process over loopback TCP must print what engine A prints."""
    from vlib import abcheck
    name = case['arch']
    a = ARCH[name]
    spec = dict(a['spec'], faults=case['faults'])
    try:
        ra, rb, peer_a, peer_b, eof = abcheck.run_both(spec, ['-n'] + list(a['argv']), timeout_opt=1)
    except drive.Inconclusive:
        # wall-clock budget hit: inconclusive here (hangs are decided by engine A's virtual clock, deterministically)
        return mkres(case, nt=False, classes=['engine-B', 'wall-clock-budget-hit-inconclusive'], fails=[])
    fails = []
    if ra.exc or rb.code == 255:
        # a crash prints a traceback whose frames differ between the engines; only the status class is comparable
        if (ra.code == 255) != (rb.code == 255):
            raise RuntimeError('engines disagree on crashing: A %r B %r' % (ra.code, rb.code))
    else:
        agree = abcheck.assert_agree(ra, rb, 'C09 %s %r' % (name, case['faults']))
    if rb.code not in (0, 1, 2, 3):
        fails.append(['undocumented-exit-status-%d-real-process' % rb.code, 'arch %s faults %r' % (name, case['faults'])])
    expect_eof = len([c for c in peer_b.conns if not c.reset])     # a connection the server reset itself has no EOF to observe
    if len(eof) < expect_eof:
        fails.append(['connection-not-closed-at-process-exit', 'arch %s faults %r: server saw EOF on %d of %d connections' % (name, case['faults'], len(eof), expect_eof)])
    return mkres(case, nt=True, classes=['engine-B', 'arch:' + name] + ([] if locals().get('agree', True) else ['AB-disagree']), fails=fails)


def _u(s):
    return s.encode('utf-8').decode('latin-1')


# names a peer may put into a name-list that look like something else to the code that renders them: numbers
# (also in other scripts), format directives, report prefixes, control bytes, boundary lengths
ODD_NAMES = ['1', '0', '-1', '+1', '007', '1e3', '0x10', '1_000', _u('\u0661\u0662\u0663'), _u('\u00b2'), _u('\u2460'), _u('\u0be7'), _u('\uff11\uff12'), _u('\u00bd'),
             '%s', '%d', '%(x)s', '%', '{}', '{0}', '{x}', '{', '}', '\\', '"', "'", '\x1b[31m', '\x00', '\xff\xfe', _u('\u0085'), _u('\u2028'),
             'a' * 63, 'a' * 64, 'a' * 65, 'a' * 1000, ' ', '\t', '\r', 'a\nb', '-', '--', '@', 'a@', '@b', '=', 'a=b', 'none', 'None', 'null', 'true', 'nan', 'inf',
             # names of a known family with a field missing, empty or doubled (the code that recognises families splits on '-' and '@')
             'gss-', 'gss-krb5', 'gss--', 'gss-group1-sha1-', 'gss-group14-sha256-', 'gss-gex-sha1-', 'gss-gex-sha1--', 'gss-nistp256-sha256-', 'gss-curve25519-sha256-',
             'diffie-hellman-group-exchange-', 'diffie-hellman-group', 'ecdsa-sha2-', 'ecdsa-sha2-1.3.132.0.10-', 'sk-', 'sk-@openssh.com', '@openssh.com', 'chacha20-poly1305@', '-etm@openssh.com', '-cbc', '-cert-v01@openssh.com',
             'ssh-rsa-cert-v01@', 'hmac-', 'curve25519-sha256@', 'aes256-gcm@', 'ssh-', 'rsa-sha2-',
             'ext-info-s', 'kex-strict-s-v00@openssh.com', 'kex-strict-c-v00@openssh.com', 'SSH-2.0-x', '(rec)', '# general', '[fail]', '*', '.*', '\\d+']
NAME_MODES = {'text': ([], False), 'json': (['-j'], False), 'verbose': (['-v'], False), 'batch': (['-b'], False), 'level': (['-l', 'warn'], False),
              'policy': (['-P', 'Hardened OpenSSH Server v9.9 (version 1)'], False), 'policy-json': (['-j', '-P', 'Hardened OpenSSH Server v9.9 (version 1)'], False),
              'client': (['-c'], True), 'client-json': (['-c', '-j'], True), 'client-policy': (['-c', '-P', 'Hardened Ubuntu Client 24.04 LTS (version 1)'], True)}


def eval_names(case):
    """A well-framed KEXINIT whose name-lists contain one odd name (alone or after an ordinary one)."""
    argv0, client = NAME_MODES[case['mode']]
    lists = {'kex': ['curve25519-sha256'], 'key': ['ssh-ed25519'], 'enc': ['aes128-ctr'], 'mac': ['hmac-sha2-256'], 'comp': ['none']}
    lists[case['cat']] = [case['name']] if case['alone'] else lists[case['cat']] + [case['name']]
    spec = dict(lists, hostkeys=HK_ED)
    peer = fakenet.peer_from_spec(spec)
    net = fakenet.FakeNet()
    argv = ['-n'] + list(argv0)
    if client:
        net.pending_clients.append(peer)
    else:
        net.add('h', 22, peer)
        argv += ['--skip-rate-test', 'h']
    r = drive.run_cli(argv, net)
    fails = []
    tag = 'odd name in %s list (%s), mode %s: %r' % (case['cat'], 'alone' if case['alone'] else 'second', case['mode'], case['name'][:40])
    if r.hang:
        fails.append(['hang:handshake', tag])
    elif r.exc:
        fails.append(['%s:odd-name' % drive.crash_sig(r), '%s: %s' % (tag, r.exc.strip().splitlines()[-1][:200])])
    elif r.code not in (0, 1, 2, 3):
        fails.append(['undocumented-exit-status-%d' % r.code, tag])
    elif has_report(r.out, argv) != (r.code in (0, 2, 3)):
        fails.append(['report-presence-vs-status', '%s: exit %d' % (tag, r.code)])
    return mkres(case, nt=True, classes=['odd-names', 'mode:' + case['mode'], 'cat:' + case['cat']], fails=fails)


RATE_BEHAVIOURS = ['normal', 'close', 'reset', 'refuse', 'stall', 'greet:Exceeded MaxStartups\r\n', 'greet:SSH-', 'greet:\x00\xff\x00\xff\x00\xff\x00\xff\x00\xff', 'greet:Exceeded',
                   'mixed:2:reset', 'mixed:3:close', 'mixed:5:stall', 'mixed:2:refuse', 'mixed:7:greet:Exceeded MaxStartups\r\n']


def eval_rate(case):
    """The connection-rate check is a stage of a standard audit too: whatever the peer does on those connections, the
    audit ends, with a documented status and - the handshake being clean - a complete report."""
    name = case['arch']
    a = ARCH[name]
    spec = dict(a['spec'], faults=case.get('faults', []), rate=case['rate'])
    peer = fakenet.peer_from_spec(spec)
    net = fakenet.FakeNet()
    net.add('h', 22, peer)
    r = drive.run_cli(['-n'] + list(a['argv']) + ['-t', str(TIMEOUT), 'h'], net)
    fails = []
    tag = 'arch %s, rate-check connections answered with %r, faults %r' % (name, case['rate'], case.get('faults', []))
    nb = [c for c in net.connects if c[4]]
    cl = ['rate-check-stage', 'arch:' + name, 'rate:' + case['rate'].split(':')[0] + (':' + case['rate'].split(':')[2] if case['rate'].startswith('mixed') else ''), 'rate-connections:%s' % ('0' if not nb else '1+')]
    if r.hang:
        fails.append(['hang:rate-check', '%s: %s' % (tag, r.hang)])
    elif r.exc:
        fails.append(['%s:rate-check-phase' % drive.crash_sig(r), '%s: %s' % (tag, r.exc.strip().splitlines()[-1][:200])])
    else:
        if r.code not in (0, 1, 2, 3):
            fails.append(['undocumented-exit-status-%d' % r.code, tag])
        if not case.get('faults'):
            first_handshake_status(peer.conns[0] if peer.conns else None, 2)
            if r.code not in (0, 2, 3) or not complete_report(r.out, name):
                fails.append(['wellformed-handshake-but-no-complete-report', '%s: exit %d; tail %r' % (tag, r.code, r.out[-200:])])
        elif has_report(r.out, a['argv']) != (r.code in (0, 2, 3)):
            fails.append(['report-presence-vs-status', '%s: exit %d' % (tag, r.code)])
        nconn = max(1, len(net.connects))
        if net.clock > TIMEOUT * (2 * nconn + 1) + 1.5:
            fails.append(['waiting-time-exceeds-bound', '%s: waited %.1fs virtual over %d connections' % (tag, net.clock, nconn)])
    return mkres(case, nt=bool(nb), classes=cl, fails=fails)


# digit runs of a few dozen characters in strings that are *almost* version numbers (what a pattern with nested repetition chokes on)
NEAR_VERSIONS = ['SSH-2.0-OpenSSH_%s..1', 'SSH-2.0-OpenSSH_%s.x', 'SSH-2.0-OpenSSH_%s.1.', 'SSH-2.0-OpenSSH_1.%s..', 'SSH-2.0-dropbear_%s..80', 'SSH-2.0-dropbear_2020.%s-', 'SSH-2.0-libssh_%s.1..2', 'SSH-2.0-libssh-0.%s.x', 'SSH-2.0-OpenSSH_%sp1..', 'SSH-2.0-OpenSSH_%s.%s.%s..p1',
                 'SSH-2.%s..0-OpenSSH_9.0', 'SSH-1.%s.5-OpenSSH_3.0', 'SSH-2.0-tinyssh_%s..', 'SSH-2.0-PuTTY_Release_0.%s..']
BIG_BANNERS = ['SSH-2.%s-OpenSSH_9.0', 'SSH-1.%s-OpenSSH_3.0', 'SSH-%s.0-OpenSSH_9.0', 'SSH-2.0-OpenSSH_%s', 'SSH-2.0-OpenSSH_9.%s', 'SSH-2.0-OpenSSH_9.%sp1 Debian-1', 'SSH-2.0-OpenSSH_%s.%s', 'SSH-2.0-dropbear_%s.80', 'SSH-2.0-dropbear_2020.%s',
               'SSH-2.0-libssh_0.%s.1', 'SSH-2.0-libssh-0.9.%s', 'SSH-2.0-tinyssh_%s', 'SSH-2.0-PuTTY_Release_0.%s', 'SSH-2.0-Cisco-1.%s', 'SSH-1.99-SSH-2.%s-OpenSSH_9.0', 'SSH-2.0-x %s', 'SSH-2.0-%s', 'SSH-2.0-OpenSSH_for_Windows_%s.1',
               'SSH-2.0-OpenSSH_9.0 FreeBSD-%s', 'SSH-2.0-OpenSSH_9.0p1 Ubuntu-%subuntu0.%s', 'SSH-2.0-ROSSSH_%s', 'SSH-2.0-mpSSH_0.%s.1', 'SSH-2.0-RomSShell_%s.62']


def eval_bignum(case):
    """Identification strings with numbers of thousands of digits wherever the grammar has a number."""
    digits = (case['digit'] * case['n'])[:case['n']]
    banner = case['form'].replace('%s', digits)
    spec = {'banner': banner, 'kex': ['curve25519-sha256', 'diffie-hellman-group14-sha1'], 'key': ['ssh-ed25519', 'ssh-rsa'], 'enc': ['aes128-ctr', '3des-cbc'], 'mac': ['hmac-sha2-256']}
    argv0, client = NAME_MODES[case['mode']]
    peer = fakenet.peer_from_spec(spec)
    net = fakenet.FakeNet()
    argv = ['-n'] + list(argv0)
    if client:
        net.pending_clients.append(peer)
    else:
        net.add('h', 22, peer)
        argv += ['--skip-rate-test', 'h']
    r = drive.run_cli(argv, net)
    fails = []
    tag = 'banner %s with a %d-digit number (%r...), mode %s' % (case['form'], case['n'], digits[:6], case['mode'])
    if r.hang:
        fails.append(['hang:handshake', tag])
    elif r.exc:
        fails.append(['%s:long-number-in-banner' % drive.crash_sig(r), '%s: %s' % (tag, r.exc.strip().splitlines()[-1][:160])])
    elif r.code not in (0, 1, 2, 3):
        fails.append(['undocumented-exit-status-%d' % r.code, tag])
    elif has_report(r.out, argv) != (r.code in (0, 2, 3)):
        fails.append(['report-presence-vs-status', '%s: exit %d' % (tag, r.code)])
    return mkres(case, nt=True, classes=['long-number-in-banner', 'digits:%d' % case['n'], 'mode:' + case['mode']], fails=fails)


def eval_case(case):
    if case.get('kind') == 'bignum':
        return eval_bignum(case)
    if case.get('kind') == 'rate':
        return eval_rate(case)
    if case.get('kind') == 'ab':
        return eval_ab(case)
    if case.get('kind') == 'names':
        return eval_names(case)
    if case.get('kind') == 'fuzz':
        from vlib import fuzzrun
        return fuzzrun.eval_fuzz_case(case)
    name = case['arch']
    faults = case['faults']
    a = ARCH[name]
    r, net, peer = run_arch(name, faults, case.get('segment', 0))
    fails = []
    proto = a['spec'].get('proto', 2)
    hc = a.get('hs_conn', 0)
    conn0 = peer.conns[hc] if len(peer.conns) > hc else None
    if hc:
        # the handshake that counts follows a refused SSH-2 attempt; that attempt must itself have gone as scripted
        c_first = peer.conns[0] if peer.conns else None
        first_ok = c_first is not None and b''.join(d for _, d in c_first.emitted).endswith(b'Protocol major versions differ.\n') and b''.join(d for _, d in c_first.emitted).count(b'\n') == 2
        hs = first_handshake_status(conn0, proto) if first_ok else 'decodable'
    else:
        hs = first_handshake_status(conn0, proto)
    where = 'handshake' if any(f[1] in (0, hc, '*') and f[0] in ('connect', 'banner', 'kexinit', 'pkm', 'differ') for f in faults) else 'probe'
    tag = '%s/%s' % (name, '+'.join(sorted({f[0] for f in faults})) or 'none')
    reached = bool(case.get('clean')) or any(e[1] == 'fault' for e in peer.log) or bool(case.get('segment')) or any(e[1] in ('refused', 'connect-timeout') for e in peer.log)
    cl = ['arch:' + name, 'phase:' + where, 'handshake:' + hs] + ['fault:%s' % (f[2] if isinstance(f[2], str) else f[2][0]) for f in faults]
    # (1) documented status, no traceback, no hang
    if r.hang:
        fails.append(['hang:%s' % where, 'faults %r: %s' % (faults, r.hang)])
        return mkres(case, nt=reached, classes=cl, fails=fails)
    if r.exc:
        fails.append(['%s:%s-phase' % (drive.crash_sig(r), where), 'arch %s faults %r: %s' % (name, faults, r.exc.strip().splitlines()[-1][:200])])
        return mkres(case, nt=reached, classes=cl + ['crash'], fails=fails)
    if r.code not in (0, 1, 2, 3):
        fails.append(['undocumented-exit-status-%d' % r.code, 'arch %s faults %r' % (name, faults)])
    # (2) bounded waiting
    nconn = max(1, len(net.connects) + (1 if a.get('client') else 0))
    per = {}
    for sid in net.stall_log:
        per[sid] = per.get(sid, 0) + 1
    if per and max(per.values()) > 2:
        fails.append(['more-than-two-timeouts-on-one-connection', 'arch %s faults %r: %r' % (name, faults, per)])
    if net.clock > TIMEOUT * (2 * nconn + 1) + 1.5:
        fails.append(['waiting-time-exceeds-bound', 'arch %s faults %r: waited %.1fs virtual over %d connections' % (name, faults, net.clock, nconn)])
    # (3) report present iff status 0/2/3
    argv = a['argv']
    rep = has_report(r.out, argv)
    if rep != (r.code in (0, 2, 3)):
        fails.append(['report-presence-vs-status', 'arch %s faults %r: exit %d, report %s' % (name, faults, r.code, 'present' if rep else 'absent')])
    if case.get('clean') and a.get('no_report'):
        hs = 'broken'          # this peer never completes a handshake: status 1, no report, bounded connections
        if len(net.connects) > 2:
            fails.append(['version-mismatch-peer-redialled', 'arch %s: %d connections' % (name, len(net.connects))])
    elif case.get('clean'):
        # the fault-free transcript itself: must end in a complete report
        hs = 'wellformed'
        if a.get('hs_conn') and len(peer.conns) > a['hs_conn']:
            first_handshake_status(peer.conns[a['hs_conn']], proto)
    # (4) complete report iff the first handshake was well-formed
    if hs == 'wellformed':
        if r.code not in (0, 2, 3) or not complete_report(r.out, name):
            sig = 'wellformed-handshake-but-no-complete-report'
            if where == 'probe' and r.sysexit and ('invalid ssh packet' in r.out or 'CRC32' in r.out):
                sig = 'probe-phase-packet-error-exits-without-report'
            fails.append([sig, 'arch %s faults %r: exit %d; tail %r' % (name, faults, r.code, r.out[-200:])])
    elif hs == 'broken':
        if r.code != 1:
            fails.append(['broken-handshake-exit-status-%d' % r.code, 'arch %s faults %r' % (name, faults)])
        if rep:
            fails.append(['broken-handshake-but-report-shown', 'arch %s faults %r: %r' % (name, faults, r.out[-200:])])
    return mkres(case, key=None, nt=reached, classes=cl, fails=fails)


# -------------------------------------------------------------------------------- enumeration

def length_field_offsets(what, payload):
    """Offsets of structural uint32 length fields inside a payload (type byte included)."""
    offs = []
    if what == 'kexinit':
        offs, _ = wire.kexinit_field_offsets(payload)
        return offs
    if what in ('kexdh_reply', 'gex_reply'):
        p = 1
        for _ in range(3):
            if p + 4 > len(payload):
                break
            offs.append(p)
            n = struct.unpack('>I', payload[p:p + 4])[0]
            if _ == 0:
                # inside the host key blob: its own fields
                q = p + 4
                end = q + n
                k = 0
                while q + 4 <= end and k < 16:
                    offs.append(q)
                    m = struct.unpack('>I', payload[q:q + 4])[0]
                    if m > end - q:
                        break
                    q += 4 + m
                    k += 1
            p += 4 + n
        return offs
    if what == 'gex_group':
        p = 1
        for _ in range(2):
            if p + 4 > len(payload):
                break
            offs.append(p)
            p += 4 + struct.unpack('>I', payload[p:p + 4])[0]
    return offs


def enumerate_faults(name, quick, rng):
    msgs, _ = clean_transcript(name)
    cases = []

    def add(idx, what, f):
        cases.append({'arch': name, 'faults': [[what, idx, f]]})
    seen_kinds = set()
    for idx, what, raw, payload in msgs:
        kind_key = (what, min(idx, 3))
        dense = kind_key not in seen_kinds          # the first few connections of each message kind get the dense treatment
        seen_kinds.add(kind_key)
        if not dense and quick:
            continue
        n = len(raw)
        offs = list(range(0, n + 1))
        if quick and n > 80:
            offs = sorted(set(list(range(0, 24)) + rng.sample(range(24, n), 24) + [n - 1, n]))
        elif not quick and n > 600:
            offs = sorted(set(list(range(0, 200)) + rng.sample(range(200, n), 200) + [n - 1, n]))
        for k in offs:
            add(idx, what, ['trunc', k, 'close'])
            if not quick or k % 3 == 0:
                add(idx, what, ['trunc', k, 'stall'])
        # every byte inverted / bit-flipped (sampled above 400 bytes in quick)
        xoffs = list(range(n))
        if quick and n > 400:
            xoffs = sorted(set(list(range(0, 120)) + rng.sample(range(120, n), 200)))
        for k in xoffs:
            add(idx, what, ['xor', k, 0xff])
            if not quick or k % 4 == 0:
                add(idx, what, ['xor', k, 0x01])
                add(idx, what, ['xor', k, 0x80])
        add(idx, what, 'close')
        add(idx, what, 'stall')
        add(idx, what, 'reset')
        add(idx, what, ['dup'])
        if payload is not None:
            m = len(payload)
            poffs = list(range(0, m + 1))
            if quick and m > 80:
                poffs = sorted(set(list(range(0, 24)) + rng.sample(range(24, m), 20) + [m - 1]))
            elif not quick and m > 600:
                poffs = sorted(set(list(range(0, 200)) + rng.sample(range(200, m), 150) + [m - 1]))
            for k in poffs:
                add(idx, what, ['reframe_trunc', k])
            for o in length_field_offsets(what, payload):
                cur = struct.unpack('>I', payload[o:o + 4])[0]
                for v in (0, max(cur - 1, 0), cur + 1, 0x7fffffff, 0xffffffff, len(payload)):
                    add(idx, what, ['set_u32', o, v])
            if not quick:
                for o in range(1, max(1, len(payload) - 3), 7):
                    add(idx, what, ['set_u32', o, 0xffffffff])
                    add(idx, what, ['set_u32', o, 0])
            for t in TYPES:
                add(idx, what, ['type', t])
            for reason in (1, 2, 7, 11, 12, 0xffffffff):
                add(idx, what, ['disconnect', reason])
            for k in (1, 3, 40):
                add(idx, what, ['debug', k])
            if dense and (not quick or idx <= 1 or what in ('gex_group', 'gex_reply')):
                for k in (1100, 3500):
                    add(idx, what, ['debug', k])        # "any finite sequence": a run longer than any interpreter-level nesting limit
            for v in (0, 1, 3, 4, 5, 7, 0x1234, 0x7fffffff, 0xffffffff, len(raw) - 4 + 8, len(raw) - 4 - 8):
                add(idx, what, ['set_len', v])
            for v in (0, 1, 3, 200, 255):
                add(idx, what, ['set_pad', v])
            for pad in (4, 64, 120, 127, 128, 136, 200, 248):
                add(idx, what, ['pad_legal', pad])          # any legal amount of padding is a well-formed packet
            for pad in (4, 5, 12, 255):
                if (len(payload) + 5 + pad) % 8 == 0 or True:
                    add(idx, what, ['pad', pad])
            add(idx, what, ['append', '\x00' * 8])
            add(idx, what, ['payload', ''])
            add(idx, what, ['payload', chr(payload[0])])
        elif what == 'pkm':
            # SSH-1 public key message with a *valid* checksum around a changed body: every truncation, every
            # bit-length field at boundary values, other packet types, trailing bytes
            t1, body1 = wire.ssh1_parse_packet(raw)
            for k in range(len(body1)):
                if not quick or k < 32 or k % 5 == 0 or k > len(body1) - 16:
                    add(idx, what, ['ssh1_trunc', k])
            offs, q = [], 12
            for blk in range(2):
                for _ in range(2):
                    offs.append(q)
                    q += 2 + (struct.unpack('>H', body1[q:q + 2])[0] + 7) // 8
                q += 4
            for o in offs:
                cur = struct.unpack('>H', body1[o:o + 2])[0]
                for v in (0, 1, 7, 8, 9, cur - 8, cur - 1, cur + 1, cur + 8, 0x7fff, 0x8000, 0xffff):
                    add(idx, what, ['ssh1_set_u16', o, v])
            # the announced key sizes (32-bit fields in front of each key) against the real ones
            for o in (8, offs[2] - 4):
                cur = struct.unpack('>I', body1[o:o + 4])[0]
                for v in (0, 1, 7, 8, cur - 9, cur - 8, cur - 1, cur + 1, cur + 8, cur * 2, 0x7fffffff, 0xffffffff):
                    add(idx, what, ['ssh1_set_u32', o, v])
            for t in (0, 1, 3, 14, 15, 20, 36, 255):
                add(idx, what, ['ssh1_type', t])
            add(idx, what, ['ssh1_append', '\x00'])
            add(idx, what, ['ssh1_append', '\xff' * 64])
            add(idx, what, ['ssh1_body', ''])
            add(idx, what, ['ssh1_body', '\x00' * 8])
        else:
            for junk in ('\x00' * 40 + '\n', 'x' * 5000 + '\n', 'SSH-\n', 'SSH-2.0\n', '\xff\xfe\xfd\n', '\r\n' * 30):
                add(idx, what, ['raw', junk, None])
                add(idx, what, ['raw', junk, 'close'])
    # connection-level faults for every connection index seen
    for idx in sorted({m[0] for m in msgs}):
        for f in ('close', 'stall', 'refuse', 'timeout'):
            if idx == 0 and ARCH[name].get('client'):
                continue
            cases.append({'arch': name, 'faults': [['connect', idx, f]]})
    # a server that stops serving this client after its first k connections, in every way and for good
    for k in (1, 2, 3, 5):
        for what, f in (('connect', 'close'), ('connect', 'refuse'), ('connect', 'stall'), ('banner', 'close'), ('banner', 'reset'), ('kexinit', 'reset'), ('kexinit', 'close'), ('kexinit', 'stall'), ('kexinit', ['disconnect', 12]), ('kexinit', ['disconnect', 2]),
                        ('kexdh_reply', 'close'), ('kexdh_reply', ['disconnect', 3]), ('gex_group', ['disconnect', 12]), ('gex_group', 'stall'), ('kexinit', ['type', 2])):
            if what == 'connect' and ARCH[name].get('client'):
                continue
            cases.append({'arch': name, 'faults': [[what, '%d+' % k, f]]})
    # extra pre-banner lines and segmentation
    for k in (1, 5, 50):
        cases.append({'arch': name, 'faults': [['banner', '*', ['raw', 'motd line\r\n' * k + 'SSH-2.0-OpenSSH_8.0\r\n', None]]] if ARCH[name]['spec'].get('proto', 2) == 2 else []})
    for seg in (1, 2, 7):
        cases.append({'arch': name, 'faults': [], 'segment': seg})
    if ARCH[name]['spec'].get('proto', 2) == 2:
        # header lines followed by the banner, cut into segments of every size: a recv may end inside the banner
        b = ARCH[name]['spec'].get('banner', 'SSH-2.0-OpenSSH_8.0')
        for pre in ('hello\r\n', 'motd line one\r\n\r\nline two\n'):
            for seg in (range(3, 40) if not quick else range(3, 40, 2)):
                cases.append({'arch': name, 'faults': [['banner', '*', ['raw', pre + b + '\r\n', None]]], 'segment': seg})
    cases.append({'arch': name, 'faults': [], 'clean': True})
    return [c for c in cases if c['faults'] or c.get('segment') or c.get('clean')]


def strat_mutation():
    """Random byte-level mutations of any message of any archetype (xor / overwrite / insert)."""
    def build(t):
        name, pick, muts, after = t
        msgs, _ = clean_transcript(name)
        idx, what, raw, payload = msgs[pick % len(msgs)]
        d = bytearray(raw)
        for off, val, mode in muts:
            o = off % (len(d) + 1)
            if mode == 0 and o < len(d):
                d[o] ^= (val or 1)
            elif mode == 1 and o < len(d):
                d[o] = val
            else:
                d.insert(o, val)
        return {'arch': name, 'faults': [[what, idx, ['raw', fakenet.b2j(bytes(d)), after]]]}
    return st.tuples(st.sampled_from(sorted(ARCH)), st.integers(0, 200), st.lists(st.tuples(st.integers(0, 4000), st.integers(0, 255), st.integers(0, 2)), min_size=1, max_size=6), st.sampled_from([None, None, 'close', 'stall'])).map(build)


def strat_double():
    """Two independent faults on different messages."""
    def build(t):
        name, p1, p2, f1, f2 = t
        msgs, _ = clean_transcript(name)
        a, b = msgs[p1 % len(msgs)], msgs[p2 % len(msgs)]
        def mk(m, f):
            idx, what, raw, payload = m
            kind, x = f
            if kind == 'trunc':
                return [what, idx, ['trunc', x % (len(raw) + 1), 'close']]
            if kind == 'type' and payload is not None:
                return [what, idx, ['type', x % 256]]
            if kind == 'reframe' and payload is not None:
                return [what, idx, ['reframe_trunc', x % (len(payload) + 1)]]
            return [what, idx, 'stall' if x % 2 else 'close']
        fl = [mk(a, f1)]
        g = mk(b, f2)
        if (g[0], g[1]) != (fl[0][0], fl[0][1]):
            fl.append(g)
        return {'arch': name, 'faults': fl}
    fk = st.tuples(st.sampled_from(['trunc', 'type', 'reframe', 'close']), st.integers(0, 5000))
    return st.tuples(st.sampled_from(sorted(ARCH)), st.integers(0, 200), st.integers(0, 200), fk, fk).map(build)


def valid_case(case):
    return 'arch' in case


NO_SHRINK_KEYS = ('faults',)


def run(ctx):
    allc = []
    for name in sorted(ARCH):
        allc += enumerate_faults(name, ctx.quick, ctx.rng)
    ctx.map(allc)
    # engine-B sample: enumerated single-fault cases that real TCP can express (no refusal by connection index, no segmentation)
    pool = [c for c in allc if not c.get('segment') and not c.get('clean') and ARCH[c['arch']].get('client') is None and c['arch'] not in ('ssh1-fallback',)
            and all(f[2] not in ('refuse', 'timeout') and f[0] != 'connect' for f in c['faults'])]
    ctx.rng.shuffle(pool)
    ab = [dict(c, kind='ab') for c in pool[:(32 if ctx.quick else 400)]]
    ctx.map(ab, chunk=1)
    ctx.note(traces_validated_against_impl=len(ab))
    # the rate-check stage (standard audits run it unless told otherwise): every behaviour towards those connections,
    # alone and together with one probe-phase fault
    rate = []
    for name in ('ed25519', 'rsa-cert-gex', 'gex-first', 'json', 'policy'):
        for beh in RATE_BEHAVIOURS:
            rate.append({'kind': 'rate', 'arch': name, 'rate': beh})
            for f in ([['kexdh_reply', 1, 'close']], [['kexinit', 1, 'stall']], [['connect', 2, 'refuse']]) if not ctx.quick else ([['kexdh_reply', 1, 'close']],):
                rate.append({'kind': 'rate', 'arch': name, 'rate': beh, 'faults': f})
    ctx.map(rate)
    ctx.note(rate_check_stage_cases=len(rate))
    big = [{'kind': 'bignum', 'form': f, 'n': n, 'digit': d, 'mode': m} for f in BIG_BANNERS for n in ((4300, 4301, 20000) if ctx.quick else (19, 20, 310, 4299, 4300, 4301, 5000, 20000, 70000)) for d in ('9', '10', '0')
           for m in (('text', 'json', 'client') if not ctx.quick else ('text', 'json' if len(f) % 2 else 'policy'))]
    big += [{'kind': 'bignum', 'form': f, 'n': n, 'digit': d, 'mode': m} for f in NEAR_VERSIONS for n in ((28, 45) if ctx.quick else (22, 28, 34, 45, 80, 300)) for d in ('1', '90') for m in ('text', 'json')]
    ctx.map(big)
    ctx.note(long_number_banner_cases=len(big))
    odd = [{'kind': 'names', 'mode': m, 'cat': c, 'name': n, 'alone': al} for m in NAME_MODES for c in ('kex', 'key', 'enc', 'mac', 'comp') for n in ODD_NAMES for al in (True, False)]
    ctx.map(odd)
    ctx.note(odd_name_cases=len(odd))
    ctx.hyp('strat_mutation', 15000 if ctx.quick else 200000, label=1)
    ctx.hyp('strat_double', 8000 if ctx.quick else 100000, label=2)
    if not ctx.quick:
        from vlib import fuzzrun
        seeds = []
        for name in ('rsa-cert-gex', 'gex-first', 'ssh1'):
            for idx, what, raw, payload in clean_transcript(name)[0]:
                if payload is not None and what in ('kexdh_reply', 'gex_group', 'gex_reply', 'kexinit'):
                    seeds.append(bytes([{'kexdh_reply': 0, 'gex_reply': 0, 'gex_group': 1, 'kexinit': 2}[what]]) + payload[1:])
        fuzzrun.run_into(ctx, 'c09_parsers', runs=250000, shards=16, seeds_corpus=seeds[:12], max_len=2048)
    ctx.note(enumerated_fault_cases=len(allc), archetypes=sorted(ARCH), timeout_s=TIMEOUT)
    return ctx.finish('fault_enumeration', 'for each of 10 transcript archetypes (Ed25519-only, RSA+certificates+GEX, GEX-first, SSH-1 with -1 (two key sizes: 1-7 and 8 bytes of padding), SSH-1 through the version-mismatch fallback, a peer answering every attempt with the version-mismatch text, client audit, policy audit, JSON) a clean run records every message of every connection; injected: truncation at every byte offset (sampled above 80 bytes in quick) then close / stall, every byte inverted / bit-flipped, close / stall / reset / duplicate, payload truncated at every byte and re-framed, every structural length field := 0, len-1, len+1, 2^31-1, 2^32-1, payload length, every message type from {0,1,2,4,20,21,30,31,32,33,34,255}, 1/3/40 MSG_DEBUG in front, bad packet-length / padding fields, garbage and very long pre-banner lines, refused / timed-out / closed / silent connections at every connection index, 1/2/7-byte segmentation; runs of 1100 and 3500 MSG_DEBUG; identification strings with numbers of up to 70000 digits in every numeric position of 23 banner forms; the rate-check stage answered in 14 ways (closed, reset, refused, silent, greeted with MaxStartups text / partial banners / binary, every k-th connection only); Hypothesis byte mutations and double faults; non-trivial = the fault was actually reached',
                      assumptions=['virtual time: a stalled read costs exactly the configured timeout', 'well-formedness of the first handshake is judged by the independent strict parser in vlib/wire.py; inputs it rejects but that still decode as a KEXINIT may go either way'])

"""C11 — host-key sizes, CA details and fingerprints are measured and rated correctly.

The scripted server answers the host-key probes with blobs built by vlib/wire.py, so the true
modulus bit length, CA type and CA size of every presented key are known to the oracle.
"""
import itertools
import json
import re

from vlib import fakenet, drive, report, wire
from vlib.runner import mkres

ID = 'C11'
RSA_FAMILY = ['ssh-rsa', 'rsa-sha2-256', 'rsa-sha2-512']
RSA_CERTS = ['ssh-rsa-cert-v01@openssh.com', 'rsa-sha2-256-cert-v01@openssh.com', 'rsa-sha2-512-cert-v01@openssh.com']
ED_CERT = 'ssh-ed25519-cert-v01@openssh.com'
PROBE_KEX = ['curve25519-sha256', 'curve25519-sha256@libssh.org', 'diffie-hellman-group14-sha256', 'diffie-hellman-group14-sha1', 'diffie-hellman-group1-sha1', 'diffie-hellman-group16-sha512', 'diffie-hellman-group18-sha512',
             'diffie-hellman-group-exchange-sha256', 'diffie-hellman-group-exchange-sha1', 'ecdh-sha2-nistp256', 'ecdh-sha2-nistp384', 'ecdh-sha2-nistp521']
SMALL = re.compile(r'using small (\d+)-bit (hostkey |CA key )?modulus')
TWO2K = '2048-bit modulus only provides 112-bits of symmetric strength'
ECDSA_CA = 'CA key uses elliptic curves that are suspected as being backdoored by the U.S. National Security Agency'


def ca_spec(ca):
    if ca['t'] == 'rsa':
        return {'t': 'rsa', 'bits': ca['bits']}, 'ssh-rsa', ca['bits']
    if ca['t'] == 'ed25519':
        return {'t': 'ed25519'}, 'ssh-ed25519', 256
    return {'t': 'ecdsa', 'curve': ca['curve']}, 'ecdsa-sha2-' + ca['curve'], wire.ECDSA_BITS[ca['curve']]


def size_notes(notes):
    """notes: {sev: [texts]} -> (list of (sev, which, bits) small-modulus notes, list of sev carrying the 2048 warning, ecdsa-ca flag)"""
    small, w2k, ec = [], [], []
    for sev, texts in notes.items():
        for t in texts:
            m = SMALL.search(t)
            if m:
                small.append((sev, (m.group(2) or '').strip(), int(m.group(1))))
            if t == TWO2K:
                w2k.append(sev)
            if t == ECDSA_CA:
                ec.append(sev)
    return sorted(small), w2k, ec


def parse_report(r, rend):
    """-> ({host key name: size / CA details / notes}, sorted fingerprint triples) as the report shows them."""
    got = {}
    if rend == 'json':
        doc = json.loads(r.out)
        for e in doc['key']:
            got[e['algorithm']] = {'size': e.get('keysize'), 'casize': e.get('casize'), 'ca': e.get('ca_algorithm'), 'notes': e.get('notes', {})}
        fps = sorted((f['hostkey'], f['hash_alg'], f['hash']) for f in doc['fingerprints'])
    else:
        tr = report.TextReport(r.out, verbose=True)
        for a in tr.algs.get('key', []):
            sz = a['size'] or ''
            m1 = re.match(r'^(\d+)-bit$', sz)
            m2 = re.match(r'^(\d+)-bit cert/(\d+)-bit (.+) CA$', sz)
            notes = {}
            for sev, t in a['notes']:
                notes.setdefault(sev, []).append(t)
            got[a['name']] = {'size': int(m1.group(1)) if m1 else (int(m2.group(1)) if m2 else None), 'casize': int(m2.group(2)) if m2 else None, 'ca': m2.group(3) if m2 else None, 'notes': notes}
        fps = sorted((t, h.split(':', 1)[0], h.split(':', 1)[1]) for t, h, _ in tr.fin)
    return got, fps


ALL_CERT_KINDS = RSA_CERTS + [ED_CERT, 'ecdsa-sha2-nistp256-cert-v01@openssh.com', 'ecdsa-sha2-nistp384-cert-v01@openssh.com', 'ecdsa-sha2-nistp521-cert-v01@openssh.com', 'ssh-dss-cert-v01@openssh.com']


def eval_certfp(case):
    """Certificates of every kind the probe knows (also ones whose CA the tool does not decode, and certificates
    of the user type): fingerprints are listed for the plain keys only."""
    cspec, _, _ = ca_spec(case['ca'])
    hostkeys, plain = {}, []
    for k in case['keys']:
        if '-cert-' in k:
            inner = RSA_CERTS[0] if k in RSA_CERTS else k
            hostkeys[k] = {'t': 'cert', 'kind': inner, 'bits': case.get('bits', 3072), 'ca': cspec, 'cert_type': case.get('cert_type', 2)}
        else:
            hostkeys[k] = {'ssh-ed25519': {'t': 'ed25519'}, 'ssh-ed448': {'t': 'ed448'}, 'ecdsa-sha2-nistp256': {'t': 'ecdsa', 'curve': 'nistp256'}}.get(k, {'t': 'rsa', 'bits': 3072})
            plain.append(k)
    if any(k in RSA_FAMILY for k in plain):
        for k in RSA_FAMILY:
            hostkeys.setdefault(k, {'t': 'rsa', 'bits': 3072})
    spec = {'kex': ['curve25519-sha256'], 'key': case['keys'], 'hostkeys': hostkeys}
    want, seen_rsa = [], False
    for k in plain:
        name = 'ssh-rsa' if k in RSA_FAMILY else k
        if name == 'ssh-rsa':
            if seen_rsa:
                continue
            seen_rsa = True
        sha, md5 = wire.fingerprints(fakenet.blob_from_spec(hostkeys[k]))
        want += [(name, 'SHA256', sha[7:]), (name, 'MD5', md5[4:])]
    fails = []
    for rend in ('json', 'text'):
        net = fakenet.FakeNet()
        net.add('h', 22, fakenet.Server(spec))
        r = drive.run_cli(['-n'] + (['-j'] if rend == 'json' else ['-v']) + ['--skip-rate-test', 'h'], net)
        if r.exc or r.hang or r.code not in (0, 2, 3):
            fails.append([drive.crash_sig(r) if r.exc else 'no-report', r.brief()])
            continue
        if rend == 'json':
            fps = sorted((f['hostkey'], f['hash_alg'], f['hash']) for f in json.loads(r.out)['fingerprints'])
        else:
            fps = sorted((t, h.split(':', 1)[0], h.split(':', 1)[1]) for t, h, _ in report.TextReport(r.out, verbose=True).fin)
        cert_fps = [f for f in fps if '-cert-' in f[0]]
        if cert_fps:
            fails.append(['fingerprint-listed-for-certificate', '%s keys %r cert type %r: %r' % (rend, case['keys'], case.get('cert_type', 2), cert_fps[:2])])
        elif fps != sorted(want):
            fails.append(['fingerprints', '%s: reported %r, expected %r' % (rend, fps, sorted(want))])
    return mkres(case, nt=True, classes=['certfp', 'cert-type:%d' % case.get('cert_type', 2)] + ['has:' + k.split('-cert-')[0] for k in case['keys'] if '-cert-' in k], fails=fails)


def eval_probefail(case):
    """One advertised key type's probe is never answered (the server closes or goes silent): no blob was presented
    for it, so nothing may be reported about its size, CA or fingerprint; the other keys are reported from their own blobs."""
    cspec, ca_type, ca_size = ca_spec(case['ca'])
    pool = {'ssh-ed25519': ({'t': 'ed25519'}, None, None), 'ssh-ed448': ({'t': 'ed448'}, None, None), 'ecdsa-sha2-nistp256': ({'t': 'ecdsa', 'curve': 'nistp256'}, None, None),
            ED_CERT: ({'t': 'cert', 'kind': ED_CERT, 'ca': cspec}, 256, (ca_type, ca_size)),
            RSA_CERTS[0]: ({'t': 'cert', 'kind': RSA_CERTS[0], 'bits': case['bits'], 'ca': cspec}, case['bits'], (ca_type, ca_size))}
    for k in RSA_FAMILY:
        pool[k] = ({'t': 'rsa', 'bits': case['rsa_bits']}, case['rsa_bits'], None)
    keys, failed = case['keys'], case['failed']
    spec = {'kex': ['curve25519-sha256'], 'key': keys, 'hostkeys': {k: pool[k][0] for k in pool}, 'probe_faults': {failed: case['fault']}}
    fails = []
    for rend in ('json', 'text'):
        net = fakenet.FakeNet()
        net.add('h', 22, fakenet.Server(spec))
        r = drive.run_cli(['-n'] + (['-j'] if rend == 'json' else ['-v']) + ['--skip-rate-test', 'h'], net)
        if r.exc or r.hang or r.code not in (0, 2, 3):
            fails.append([drive.crash_sig(r) if r.exc else 'no-report', r.brief()])
            continue
        got, fps = parse_report(r, rend)
        g = got.get(failed)
        if g is None:
            fails.append(['hostkey-missing-from-report', '%s %s' % (rend, failed)])
            continue
        small, w2k, ec = size_notes(g['notes'])
        if g['casize'] or g['ca'] or small or w2k or ec or (g['size'] and failed not in (ED_CERT,)):
            fails.append(['details-reported-for-a-key-that-was-never-presented', '%s: keys %r, probe of %s answered with %r, yet the report says %r' % (rend, keys, failed, case['fault'], {kk: v for kk, v in g.items() if kk != 'notes' or (small or w2k or ec)})])
        if any(f[0] == failed for f in fps):
            fails.append(['fingerprint-for-a-key-that-was-never-presented', '%s: %s' % (rend, failed)])
        # the keys that were presented keep their own details
        for k in keys:
            if k == failed or (k in RSA_FAMILY and failed in RSA_FAMILY):
                continue
            bs, size, ca = pool[k]
            gk = got.get(k)
            if gk is None:
                fails.append(['hostkey-missing-from-report', '%s %s' % (rend, k)])
                continue
            if ca is not None and (gk['casize'], gk['ca']) != (ca[1], 'RSA' if (rend == 'text' and ca[0] in RSA_FAMILY) else ca[0]):
                if not (ca[0] == 'ecdsa-sha2-nistp521' and gk['casize'] == 528):
                    fails.append(['ca-type', '%s %s next to an unanswered probe: reported %r/%r, signed by %r' % (rend, k, gk['ca'], gk['casize'], ca)])
            if ca is None and (gk['casize'] or gk['ca']):
                fails.append(['ca-details-on-plain-key', '%s %s: %r' % (rend, k, gk)])
            if size is not None and k in RSA_FAMILY + RSA_CERTS[:1] and gk['size'] != size:
                fails.append(['hostkey-size', '%s %s: reported %r-bit, presented key has %d bits' % (rend, k, gk['size'], size)])
    return mkres(case, nt=True, classes=['probefail', 'failed:' + failed, 'fault:%s' % (case['fault'] if isinstance(case['fault'], str) else case['fault'][0]), 'pos:%d' % keys.index(failed)], fails=fails)


def eval_seq(case):
    """Several servers in one invocation: what is reported about each server's keys equals what a fresh run reports
    for that server alone (whose correctness the other families establish)."""
    import os

    def srv(m):
        cspec, _, _ = ca_spec(m['ca'])
        hk = {'ssh-ed25519': {'t': 'ed25519'}}
        for k in m['keys']:
            if k == ED_CERT:
                hk[k] = {'t': 'cert', 'kind': ED_CERT, 'ca': cspec}
            elif k in RSA_CERTS:
                hk[k] = {'t': 'cert', 'kind': RSA_CERTS[0], 'bits': m['bits'], 'ca': cspec}
            elif k in RSA_FAMILY:
                for r in RSA_FAMILY:
                    hk[r] = {'t': 'rsa', 'bits': m['bits']}
        return fakenet.Server({'kex': ['curve25519-sha256'], 'key': m['keys'], 'hostkeys': hk, 'latency': bool(case.get('concurrent'))})

    def keyview(d):
        return json.dumps({'key': d.get('key'), 'fingerprints': d.get('fingerprints')}, sort_keys=True)
    solos = []
    for m in case['members']:
        net = fakenet.FakeNet()
        net.add('h', 22, srv(m))
        r = drive.run_cli(['-n', '-j', '--skip-rate-test', 'h'], net)
        solos.append(keyview(json.loads(r.out)) if not r.exc and r.code in (0, 2, 3) else None)
    net = fakenet.FakeNet()
    hosts = ['s%d' % i for i in range(len(case['members']))]
    for h, m in zip(hosts, case['members']):
        net.add(h, 22, srv(m))
    tf = drive.tmpfile('\n'.join(hosts) + '\n')
    try:
        if case.get('concurrent'):
            # one worker per server, the servers answer with some latency, and the workers advance in lock-step (or in a
            # generated order): every reply is waited for while the other scans are in the middle of theirs
            from vlib import sched
            n = len(hosts)
            r, sch = sched.run_scheduled(['-n', '-j', '--skip-rate-test', '--threads', str(n), '-T', tf], net, n, n, case.get('choices') or list(range(n)))
            if r.hang or sch.broken:
                raise RuntimeError('scheduler made no progress')
        else:
            r = drive.run_cli(['-n', '-j', '--skip-rate-test', '--threads', '1', '-T', tf], net)
    finally:
        os.unlink(tf)
    fails = []
    if r.exc or r.code not in (0, 2, 3) or None in solos:
        fails.append([drive.crash_sig(r) if r.exc else 'no-report', r.brief()])
    else:
        docs = {d['target'].split(':')[0]: d for d in json.loads(r.out)}
        for i, h in enumerate(hosts):
            if keyview(docs[h]) != solos[i]:
                fails.append(['host-key-details-depend-on-servers-audited-before', 'server %d of %r: %s; alone: %s' % (i + 1, case['members'], keyview(docs[h])[:300], solos[i][:300])])
    return mkres(case, nt=True, classes=['seq', 'n:%d' % len(hosts)] + (['concurrent'] if case.get('concurrent') else []), fails=fails[:3])


def eval_connfail(case):
    """A follow-up connection fails before its key exchange starts (refused, closed, silent, no banner, unreadable
    KEXINIT).  Whatever the tool does next, every key whose reply the server did deliver keeps its size, CA details and
    fingerprint, and nothing is reported for a key that was never presented."""
    cspec, ca_type, ca_size = ca_spec(case['ca'])
    pool = {'ssh-ed25519': ({'t': 'ed25519'}, None, None), 'ssh-ed448': ({'t': 'ed448'}, None, None),
            ED_CERT: ({'t': 'cert', 'kind': ED_CERT, 'ca': cspec}, 256, (ca_type, ca_size)),
            RSA_CERTS[0]: ({'t': 'cert', 'kind': RSA_CERTS[0], 'bits': case['bits'], 'ca': cspec}, case['bits'], (ca_type, ca_size))}
    for k in RSA_FAMILY:
        pool[k] = ({'t': 'rsa', 'bits': case['rsa_bits']}, case['rsa_bits'], None)
    keys = case['keys']
    spec = {'kex': ['curve25519-sha256'], 'key': keys, 'hostkeys': {k: pool[k][0] for k in pool}, 'faults': [case['fault']]}
    fails = []
    for rend in ('json', 'text'):
        net = fakenet.FakeNet()
        peer = fakenet.Server(spec)
        net.add('h', 22, peer)
        r = drive.run_cli(['-n'] + (['-j'] if rend == 'json' else ['-v']) + ['--skip-rate-test', 'h'], net)
        if r.exc or r.hang or r.code not in (0, 2, 3):
            fails.append([drive.crash_sig(r) if r.exc else 'no-report', r.brief()])
            continue
        got, fps = parse_report(r, rend)
        # what the server really handed out: the key type each connection asked for, if its reply left complete
        presented = set()
        for c in peer.conns:
            if any(w == 'kexdh_reply' for w, _ in c.emitted) and c.ckey and not any(e[0] == c.idx and e[1] == 'fault' and e[2][0] == 'kexdh_reply' for e in peer.log if len(e) > 2 and isinstance(e[2], (list, tuple))):
                presented.add(c.ckey[0])
        if any(k in RSA_FAMILY for k in presented):
            presented |= {k for k in RSA_FAMILY}
        want_fps = []
        seen_rsa = False
        for k in keys:
            g = got.get(k)
            if g is None:
                fails.append(['hostkey-missing-from-report', '%s %s' % (rend, k)])
                continue
            bs, size, ca = pool[k]
            if k in presented:
                if size is not None and g['size'] is not None and g['size'] != size or (size is not None and g['size'] is None and (rend == 'text' or k in RSA_FAMILY or k.startswith('ssh-rsa-cert'))):
                    fails.append(['details-of-a-presented-key-lost-after-a-later-connection-failed', '%s %s: size %r, presented key has %r bits (fault %r, keys %r)' % (rend, k, g['size'], size, case['fault'], keys)])
                if ca is not None and (g['casize'] != ca[1]):
                    fails.append(['details-of-a-presented-key-lost-after-a-later-connection-failed', '%s %s: CA size %r, certificate is signed by a %d-bit %s key (fault %r, keys %r)' % (rend, k, g['casize'], ca[1], ca[0], case['fault'], keys)])
                if ca is None:
                    name = 'ssh-rsa' if k in RSA_FAMILY else k
                    if name == 'ssh-rsa' and seen_rsa:
                        continue
                    seen_rsa = seen_rsa or name == 'ssh-rsa'
                    sha, md5 = wire.fingerprints(fakenet.blob_from_spec(bs))
                    want_fps += [(name, 'SHA256', sha[7:]), (name, 'MD5', md5[4:])]
            elif g['size'] or g['casize'] or g['ca']:
                fails.append(['details-reported-for-a-key-that-was-never-presented', '%s %s: %r (fault %r)' % (rend, k, {x: g[x] for x in ('size', 'casize', 'ca')}, case['fault'])])
        if fps != sorted(want_fps):
            fails.append(['fingerprints-after-a-later-connection-failed', '%s: reported %r, the keys presented were %r -> %r (fault %r)' % (rend, fps, sorted(presented), sorted(want_fps), case['fault'])])
    return mkres(case, nt=True, classes=['connfail', 'fault:%s' % (case['fault'][2] if isinstance(case['fault'][2], str) else case['fault'][2][0]), 'at-connection:%d' % case['fault'][1]], fails=fails[:4])


def eval_case(case):
    kind = case['kind']
    if kind == 'connfail':
        return eval_connfail(case)
    if kind == 'seq':
        return eval_seq(case)
    if kind == 'certfp':
        return eval_certfp(case)
    if kind == 'probefail':
        return eval_probefail(case)
    keys = case['keys']
    hostkeys = {}
    truth = {}      # advertised name -> dict(blob, size, ca_type, ca_size, family)
    if kind == 'rsa':
        blob_spec = {'t': 'rsa', 'bits': case['bits']}
        for k in RSA_FAMILY:
            hostkeys[k] = blob_spec
        blob = fakenet.blob_from_spec(blob_spec)
        for k in keys:
            truth[k] = {'blob': blob, 'size': case['bits'], 'ca': None}
    elif kind == 'cert':
        cspec, ca_type, ca_size = ca_spec(case['ca'])
        if case['inner'] == 'rsa':
            bs = {'t': 'cert', 'kind': 'ssh-rsa-cert-v01@openssh.com', 'bits': case['bits'], 'ca': cspec, 'fields': case.get('fields')}
            for k in RSA_CERTS:
                hostkeys[k] = bs
            size = case['bits']
        else:
            bs = {'t': 'cert', 'kind': ED_CERT, 'ca': cspec, 'fields': case.get('fields')}
            hostkeys[ED_CERT] = bs
            size = 256
        blob = fakenet.blob_from_spec(bs)
        for k in keys:
            truth[k] = {'blob': blob, 'size': size, 'ca': (ca_type, ca_size)}
    elif kind == 'ed':
        bs = {'t': 'ed25519'} if keys[0] == 'ssh-ed25519' else {'t': 'ed448'}
        hostkeys[keys[0]] = bs
        truth[keys[0]] = {'blob': fakenet.blob_from_spec(bs), 'size': None, 'ca': None}
    elif kind == 'twocerts':
        # an RSA certificate and an Ed25519 certificate signed by different CAs
        c1, t1, s1 = ca_spec(case['ca_rsa_cert'])
        c2, t2, s2 = ca_spec(case['ca_ed_cert'])
        b1 = {'t': 'cert', 'kind': RSA_CERTS[0], 'bits': case['bits'], 'ca': c1}
        b2 = {'t': 'cert', 'kind': ED_CERT, 'ca': c2}
        for k in RSA_CERTS:
            hostkeys[k] = b1
        hostkeys[ED_CERT] = b2
        hostkeys['ssh-ed25519'] = {'t': 'ed25519'}
        for k in keys:
            if k in RSA_CERTS:
                truth[k] = {'blob': fakenet.blob_from_spec(b1), 'size': case['bits'], 'ca': (t1, s1), 'rsa_host': True, 'plain': False}
            elif k == ED_CERT:
                truth[k] = {'blob': fakenet.blob_from_spec(b2), 'size': 256, 'ca': (t2, s2), 'rsa_host': False, 'plain': False}
            else:
                truth[k] = {'blob': fakenet.blob_from_spec(hostkeys[k]), 'size': None, 'ca': None, 'rsa_host': False, 'plain': True}
    elif kind == 'mixed':
        # several kinds of host key on one server: every key is rated by its own blob only
        cspec, ca_type, ca_size = ca_spec(case['ca'])
        pool = {'ssh-ed25519': ({'t': 'ed25519'}, None, None), 'ssh-ed448': ({'t': 'ed448'}, None, None), 'ecdsa-sha2-nistp256': ({'t': 'ecdsa', 'curve': 'nistp256'}, None, None),
                'ecdsa-sha2-nistp521': ({'t': 'ecdsa', 'curve': 'nistp521'}, None, None),
                ED_CERT: ({'t': 'cert', 'kind': ED_CERT, 'ca': cspec}, 256, (ca_type, ca_size)),
                RSA_CERTS[0]: ({'t': 'cert', 'kind': RSA_CERTS[0], 'bits': case['bits'], 'ca': cspec}, case['bits'], (ca_type, ca_size))}
        for k in RSA_FAMILY:
            pool[k] = ({'t': 'rsa', 'bits': case['rsa_bits']}, case['rsa_bits'], None)
        for k, (bs, size, ca) in pool.items():
            hostkeys[k] = bs
        for k in keys:
            bs, size, ca = pool[k]
            truth[k] = {'blob': fakenet.blob_from_spec(bs), 'size': size, 'ca': ca, 'rsa_host': k in RSA_FAMILY or k == RSA_CERTS[0], 'plain': ca is None}
    spec = {'kex': [case.get('kex', 'curve25519-sha256')], 'key': keys, 'hostkeys': hostkeys, 'moduli': [2048], 'gex_style': 'roundup', 'chatter': case.get('chatter')}
    fails = []
    bits = case.get('bits')
    for rend in case.get('renderings', ('json', 'text')):
        net = fakenet.FakeNet()
        net.add('h', 22, fakenet.Server(spec))
        r = drive.run_cli(['-n'] + {'json': ['-j'], 'text': ['-v'], 'debug': ['-d', '-v'], 'json-debug': ['-j', '-d']}[rend] + ['--skip-rate-test', 'h'], net)
        if r.exc or r.hang or r.code not in (0, 2, 3):
            fails.append([drive.crash_sig(r) if r.exc else 'no-report', r.brief()])
            continue
        if rend == 'json-debug':
            continue            # debug lines and the document share stdout; only that the audit went through is judged here
        if rend == 'debug':
            rend = 'text'
        got, fps = parse_report(r, rend)
        for k in keys:
            t = truth[k]
            g = got.get(k)
            if g is None:
                fails.append(['hostkey-missing-from-report', '%s %s' % (rend, k)])
                continue
            if t['size'] is not None and (rend == 'text' or k in RSA_FAMILY or k.startswith('ssh-rsa-cert') or g['size'] is not None) and not (rend == 'json' and k == ED_CERT and g['size'] is None):
                if g['size'] != t['size']:
                    sig = 'hostkey-size'
                    if not (rend == 'json' and g['size'] is None and not (k in RSA_FAMILY or k.startswith('ssh-rsa-cert'))):
                        fails.append([sig, '%s %s: reported %r-bit, presented key has %d bits' % (rend, k, g['size'], t['size'])])
            if t['ca'] is not None:
                ca_type, ca_size = t['ca']
                want_ca_name = 'RSA' if (rend == 'text' and ca_type in RSA_FAMILY) else ca_type
                if g['ca'] != want_ca_name:
                    fails.append(['ca-type', '%s %s: reported CA %r, certificate is signed by %r' % (rend, k, g['ca'], ca_type)])
                if g['casize'] != ca_size:
                    sig = 'ca-size'
                    fails.append([sig, '%s %s: reported CA size %r, CA key has %d bits' % (rend, k, g['casize'], ca_size)])
            elif g['casize'] or g['ca']:
                fails.append(['ca-details-on-plain-key', '%s %s: %r' % (rend, k, g)])
            # rating by size (RSA host keys and RSA CAs)
            small, w2k, ec = size_notes(g['notes'])
            want_small, want_w2k = [], False
            is_rsa_host = kind == 'rsa' or (kind == 'cert' and case['inner'] == 'rsa') or (kind in ('mixed', 'twocerts') and t.get('rsa_host'))
            if is_rsa_host:
                if t['size'] < 2048:
                    want_small.append(('fail', 'hostkey' if (kind == 'cert' or (kind in ('mixed', 'twocerts') and not t.get('plain'))) else '', t['size']))
                elif t['size'] < 3072:
                    want_w2k = True
            if t['ca'] is not None and t['ca'][0] == 'ssh-rsa':
                if t['ca'][1] < 2048:
                    want_small.append(('fail', 'CA key', t['ca'][1]))
                elif t['ca'][1] < 3072:
                    want_w2k = True
            if small != sorted(want_small) or (w2k != ['warn'] if want_w2k else w2k != []):
                sig = 'size-rating'
                fails.append([sig, '%s %s: size notes %r / 2048-warning %r; key %r CA %r => expected %r / %r' % (rend, k, small, w2k, t['size'], t['ca'], sorted(want_small), want_w2k)])
            want_ec = t['ca'] is not None and t['ca'][0].startswith('ecdsa-sha2-nistp')
            if (ec == ['fail']) != want_ec:
                fails.append(['ecdsa-ca-note', '%s %s: %r' % (rend, k, ec)])
        # fingerprints: one ssh-rsa entry for the whole RSA family, none for certificates
        want_fps = []
        if kind == 'rsa':
            sha, md5 = wire.fingerprints(truth[keys[0]]['blob'])
            want_fps = [('ssh-rsa', 'SHA256', sha[7:]), ('ssh-rsa', 'MD5', md5[4:])]
        elif kind == 'ed':
            sha, md5 = wire.fingerprints(truth[keys[0]]['blob'])
            want_fps = [(keys[0], 'SHA256', sha[7:]), (keys[0], 'MD5', md5[4:])]
        if kind in ('mixed', 'twocerts'):
            seen_rsa = False
            for k in keys:
                if not truth[k].get('plain'):
                    continue
                name = 'ssh-rsa' if k in RSA_FAMILY else k
                if name == 'ssh-rsa':
                    if seen_rsa:
                        continue
                    seen_rsa = True
                if rend == 'text' and (name.startswith('ecdsa-') or name == 'ssh-dss'):
                    sha, md5 = wire.fingerprints(truth[k]['blob'])
                    want_fps += [(name, 'SHA256', sha[7:]), (name, 'MD5', md5[4:])]
                    continue
                sha, md5 = wire.fingerprints(truth[k]['blob'])
                want_fps += [(name, 'SHA256', sha[7:]), (name, 'MD5', md5[4:])]
        if fps != sorted(want_fps):
            fails.append(['fingerprints', '%s: reported %r, expected %r' % (rend, fps, sorted(want_fps))])
    near = bits is not None and (abs(bits - 2048) <= 128 or abs(bits - 3072) <= 128)
    nt = near or kind == 'cert' or len([k for k in keys if k in RSA_FAMILY]) >= 2
    cl = [kind, 'kex:' + case.get('kex', 'curve25519-sha256')] + (['near-threshold'] if near else []) + (['ca:' + case['ca']['t']] if kind == 'cert' else []) + (['cert-fields:' + case['fields_label']] if case.get('fields') else []) + (['with -d'] if 'debug' in case.get('renderings', ()) else []) + (['debug-messages-before-replies'] if case.get('chatter') else [])
    return mkres(case, nt=nt, classes=cl, fails=fails)


def run(ctx):
    cases = []
    sizes = sorted(set(list(range(512, 16385, 64)) + [b for c in (2048, 3072) for b in range(c - 128, c + 129, 8)]))
    sizes = sorted(set(sizes + list(range(2032, 2066)) + list(range(3056, 3090)) + [513, 1023, 1025, 4095, 4097, 8191, 16383]))      # every single bit around both thresholds
    if not ctx.quick:
        sizes = sorted(set(sizes + list(range(512, 16385, 8)) + list(range(1900, 3200))))        # every multiple of 8 bits; every bit between 1900 and 3200
    fam_orders = [list(p) for n in (1, 2, 3) for p in itertools.permutations(RSA_FAMILY, n)]
    q = False           # the whole grid in both tiers: a complete run takes seconds
    for i, b in enumerate(sizes):
        near = abs(b - 2048) <= 128 or abs(b - 3072) <= 128
        if q and not near and i % 8 != ctx.seed % 8:
            continue
        cases.append({'kind': 'rsa', 'bits': b, 'keys': fam_orders[(i + ctx.seed) % len(fam_orders)]})
    for o in fam_orders:
        for b in (1024, 2048, 3072, 4096):
            cases.append({'kind': 'rsa', 'bits': b, 'keys': o})
    for kx in PROBE_KEX:
        for b in (2048, 3072):
            cases.append({'kind': 'rsa', 'bits': b, 'keys': ['rsa-sha2-512', 'ssh-rsa'], 'kex': kx})
        cases.append({'kind': 'ed', 'keys': ['ssh-ed25519'], 'kex': kx})
    cases.append({'kind': 'ed', 'keys': ['ssh-ed448']})
    cas = [{'t': 'ed25519'}] + [{'t': 'ecdsa', 'curve': c} for c in ('nistp256', 'nistp384', 'nistp521')]
    ca_sizes = [1024, 1536, 2040, 2047, 2048, 2049, 2112, 3064, 3071, 3072, 3073, 4096, 8192] if ctx.quick else sorted(set(list(range(512, 8193, 256)) + [2040, 3064] + list(range(1920, 2177, 16)) + list(range(2944, 3201, 16)) + list(range(2040, 2057)) + list(range(3064, 3081))))
    host_sizes = [1024, 2048, 3072, 4096] if ctx.quick else [1024, 2040, 2048, 2560, 3064, 3072, 4096, 8192]
    name_sets = [[RSA_CERTS[0]], [RSA_CERTS[2], RSA_CERTS[1]], RSA_CERTS]
    for i, cs in enumerate(ca_sizes):
        for j, hs in enumerate(host_sizes):
            if ctx.quick and (i + j) % 2:
                continue
            cases.append({'kind': 'cert', 'inner': 'rsa', 'bits': hs, 'ca': {'t': 'rsa', 'bits': cs}, 'keys': name_sets[(i + j) % 3]})
        cases.append({'kind': 'cert', 'inner': 'ed25519', 'ca': {'t': 'rsa', 'bits': cs}, 'keys': [ED_CERT]})
    for ca in cas:
        for hs in host_sizes:
            cases.append({'kind': 'cert', 'inner': 'rsa', 'bits': hs, 'ca': ca, 'keys': name_sets[hs % 3]})
        cases.append({'kind': 'cert', 'inner': 'ed25519', 'ca': ca, 'keys': [ED_CERT]})
    import itertools as _it
    pool_names = ['ssh-ed25519', 'ssh-ed448', 'ecdsa-sha2-nistp256', 'ecdsa-sha2-nistp521', ED_CERT, RSA_CERTS[0], 'rsa-sha2-512', 'ssh-rsa']
    mixed = []
    for n in (2, 3):
        for combo in _it.permutations(pool_names, n):
            if sum(1 for c in combo if c in (ED_CERT, RSA_CERTS[0])) == 0:
                continue
            i = len(mixed)
            mixed.append({'kind': 'mixed', 'keys': list(combo), 'bits': [1024, 2048, 3072][i % 3], 'rsa_bits': [2048, 4096, 1024][i % 3], 'ca': (cas + [{'t': 'rsa', 'bits': 1024}, {'t': 'rsa', 'bits': 2048}, {'t': 'rsa', 'bits': 4096}])[i % 7]})
    if ctx.quick:
        ctx.rng.shuffle(mixed)
        mixed = mixed[:250]
    cases += mixed
    rsa_cas = [{'t': 'rsa', 'bits': b} for b in (1024, 2048, 3072)]
    ec_cas = [{'t': 'ed25519'}, {'t': 'ecdsa', 'curve': 'nistp256'}, {'t': 'ecdsa', 'curve': 'nistp384'}]
    for a in rsa_cas + ec_cas:
        for b in rsa_cas + ec_cas:
            for bits in (2048, 4096):
                for keys in ([RSA_CERTS[0], ED_CERT], [ED_CERT, RSA_CERTS[2], 'ssh-ed25519'], [RSA_CERTS[1], RSA_CERTS[0], ED_CERT]):
                    cases.append({'kind': 'twocerts', 'keys': keys, 'bits': bits, 'ca_rsa_cert': a, 'ca_ed_cert': b})
    seq_cas = [{'t': 'ed25519'}, {'t': 'ecdsa', 'curve': 'nistp256'}, {'t': 'rsa', 'bits': 1024}, {'t': 'rsa', 'bits': 2048}, {'t': 'rsa', 'bits': 4096}]
    seqs = []
    for ck in (ED_CERT, RSA_CERTS[0], RSA_CERTS[2]):
        for a, b in _it.permutations(seq_cas, 2):
            seqs.append({'kind': 'seq', 'members': [{'keys': [ck, 'ssh-ed25519'], 'ca': a, 'bits': 3072}, {'keys': [ck], 'ca': b, 'bits': 3072}]})
    for a, b, c in _it.permutations([1024, 2048, 3072, 4096], 3):
        seqs.append({'kind': 'seq', 'members': [{'keys': ['rsa-sha2-512', 'ssh-rsa'], 'ca': seq_cas[0], 'bits': a}, {'keys': ['ssh-rsa'], 'ca': seq_cas[0], 'bits': b}, {'keys': [RSA_CERTS[0], 'rsa-sha2-256'], 'ca': seq_cas[2], 'bits': c}]})
    cases += seqs
    # the same sequences scanned concurrently (see eval_seq)
    for i, sq in enumerate(seqs):
        if i % 2 == 0 or not ctx.quick:
            cases.append(dict(sq, concurrent=True, choices=None if i % 4 == 0 else [ctx.rng.randint(0, 2) for _ in range(30)]))
    pf = []
    pf_pool = ['ssh-ed25519', 'ssh-ed448', 'ecdsa-sha2-nistp256', ED_CERT, RSA_CERTS[0], 'rsa-sha2-512', 'ssh-rsa']
    for n in (2, 3):
        for combo in _it.permutations(pf_pool, n):
            for failed in combo:
                if failed in RSA_FAMILY or failed in RSA_CERTS:
                    continue        # RSA names are retried under the next name of the family: C19's subject
                i = len(pf)
                pf.append({'kind': 'probefail', 'keys': list(combo), 'failed': failed, 'fault': ['close', 'stall', 'reset'][i % 3], 'bits': [2048, 1024, 4096][i % 3], 'rsa_bits': [1024, 3072, 2048][(i // 3) % 3],
                           'ca': [{'t': 'rsa', 'bits': 1024}, {'t': 'ed25519'}, {'t': 'rsa', 'bits': 4096}, {'t': 'ecdsa', 'curve': 'nistp384'}, {'t': 'rsa', 'bits': 2048}][i % 5]})
    if ctx.quick:
        ctx.rng.shuffle(pf)
        pf = pf[:300]
    cases += pf
    # certificates whose other fields are not the plain ones: the CA key sits behind fields of any length
    FIELD_SETS = {
        'critical-option': {'critical_options': [['force-command', '/bin/true']]},
        'two-critical-options': {'critical_options': [['force-command', '/bin/true'], ['source-address', '10.0.0.0/8']]},
        'extensions': {'extensions': [['permit-pty', ''], ['permit-user-rc', '']]},
        'options-and-extensions': {'critical_options': [['verify-required', '']], 'extensions': [['permit-pty', '']]},
        'no-principals': {'principals': []},
        'many-principals': {'principals': ['h%d.example.com' % i for i in range(40)]},
        'empty-key-id': {'key_id': ''},
        'long-key-id': {'key_id': 'k' * 700},
        'binary-key-id': {'key_id': '\x00\xff\x00\x00\x00\x07ssh-rsa'},
        'serial-max': {'serial': 2 ** 64 - 1, 'valid_after': 2 ** 63, 'valid_before': 1},
        'reserved-non-empty': {'reserved': 'xx'},
        'nonce-16': {'nonce': 'n' * 16},
        'nonce-64': {'nonce': 'n' * 64},
        'exponent-3': {'e': 3},
        'exponent-large': {'e': 2 ** 32 + 1},
        'long-signature': {'signature': '\x00\x00\x00\x0crsa-sha2-512\x00\x00\x02\x00' + 'S' * 512},
    }
    for label, fields in sorted(FIELD_SETS.items()):
        for ca in ({'t': 'rsa', 'bits': 1024}, {'t': 'rsa', 'bits': 2048}, {'t': 'rsa', 'bits': 4096}, {'t': 'ed25519'}, {'t': 'ecdsa', 'curve': 'nistp384'}):
            cases.append({'kind': 'cert', 'inner': 'rsa', 'bits': 3072, 'ca': ca, 'keys': [RSA_CERTS[0]], 'fields': fields, 'fields_label': label})
            cases.append({'kind': 'cert', 'inner': 'ed25519', 'ca': ca, 'keys': [ED_CERT], 'fields': fields, 'fields_label': label})
    # the same measurements with debugging output switched on (sizes at the ends of the grid and at the thresholds)
    for b in (1024, 2047, 2048, 3071, 3072, 4096, 8192, 14272, 14336, 15360, 16384):
        cases.append({'kind': 'rsa', 'bits': b, 'keys': ['rsa-sha2-512', 'ssh-rsa'], 'renderings': ['debug', 'json-debug']})
        cases.append({'kind': 'cert', 'inner': 'rsa', 'bits': b, 'ca': {'t': 'rsa', 'bits': b}, 'keys': [RSA_CERTS[0]], 'renderings': ['debug', 'json-debug']})
    # servers that send debug messages in front of their key-exchange replies (legal at any time)
    for n in (1, 2, 7):
        for kx in ('curve25519-sha256', 'diffie-hellman-group14-sha256', 'diffie-hellman-group-exchange-sha256', 'ecdh-sha2-nistp256'):
            ch = {'kexdh_reply': n, 'gex_reply': n, 'gex_group': n % 2}
            cases.append({'kind': 'rsa', 'bits': [1024, 2048, 3072][n % 3], 'keys': ['rsa-sha2-512', 'ssh-rsa'], 'kex': kx, 'chatter': ch})
            cases.append({'kind': 'ed', 'keys': ['ssh-ed25519'], 'kex': kx, 'chatter': ch})
            cases.append({'kind': 'cert', 'inner': 'rsa', 'bits': 3072, 'ca': {'t': 'rsa', 'bits': [1024, 2048, 4096][n % 3]}, 'keys': [RSA_CERTS[0]], 'kex': kx, 'chatter': ch})
            cases.append({'kind': 'cert', 'inner': 'ed25519', 'ca': {'t': 'ecdsa', 'curve': 'nistp384'}, 'keys': [ED_CERT], 'kex': kx, 'chatter': ch})
    # a follow-up connection that fails before its key exchange, after other keys have been measured
    cf = []
    cf_pool = ['ssh-ed25519', 'ssh-ed448', ED_CERT, RSA_CERTS[0], 'rsa-sha2-512', 'ssh-rsa']
    cf_faults = [['connect', 'refuse'], ['connect', 'close'], ['connect', 'stall'], ['connect', 'timeout'], ['banner', ['raw', 'HTTP/1.0 503 busy\r\n\r\n', 'close']], ['banner', 'close'],
                 ['kexinit', 'close'], ['kexinit', ['reframe_trunc', 30]], ['kexinit', ['type', 21]], ['kexinit', 'stall']]
    for n in (2, 3):
        for combo in _it.permutations(cf_pool, n):
            i = len(cf)
            what, f = cf_faults[i % len(cf_faults)]
            cf.append({'kind': 'connfail', 'keys': list(combo), 'fault': [what, 2 + (i // len(cf_faults)) % (n - 1 + 1), f], 'bits': [2048, 1024, 4096][i % 3], 'rsa_bits': [1024, 3072, 2048][(i // 3) % 3],
                       'ca': [{'t': 'rsa', 'bits': 1024}, {'t': 'ed25519'}, {'t': 'rsa', 'bits': 4096}, {'t': 'ecdsa', 'curve': 'nistp384'}, {'t': 'rsa', 'bits': 2048}][i % 5]})
    if ctx.quick:
        ctx.rng.shuffle(cf)
        cf = cf[:300]
    cases += cf
    for ck in ALL_CERT_KINDS:
        for ct in (2, 1, 0, 3):
            for ca in ({'t': 'ed25519'}, {'t': 'rsa', 'bits': 3072}, {'t': 'ecdsa', 'curve': 'nistp256'}):
                for keys in ([ck], [ck, 'ssh-ed25519'], ['ssh-ed25519', ck], ['rsa-sha2-512', ck, 'ssh-rsa']):
                    cases.append({'kind': 'certfp', 'keys': keys, 'cert_type': ct, 'ca': ca})
    ctx.map(cases)
    ctx.exhaustive = not q
    ctx.note(rsa_size_grid=len(sizes), explanation='exhaustive flag (thorough): the whole size grid 512..16384 step 64 plus every multiple of 8 within 128 bits of 2048 and 3072')
    return ctx.finish('exploration', 'RSA host keys over the size grid (512..16384 step 64, every multiple of 8 within +-128 of both thresholds, every single bit within 16 bits of them) under every subset/order of the RSA-family names; Ed25519/Ed448; RSA and Ed25519 certificates signed by RSA CAs (size sweep), Ed25519 CA and ECDSA P-256/384/521 CAs; every probe-capable first key exchange; JSON and verbose text; non-trivial = size within 128 bits of a threshold, or a certificate, or >= 2 RSA names',
                      assumptions=['keys are 2^(n-1)+1 moduli: only lengths matter to the tool', 'sizes are compared exactly, bit for bit'])

"""C19 — a standard audit's footprint on the target is small and bounded.

Invariants over the virtual network's connection log for every server behaviour of the C09 / C11 /
C12 families, with and without --skip-rate-test, standard and policy audits, and rate-check servers
that answer, stall, refuse, close at once or greet with non-SSH text."""
import json

from hypothesis import strategies as st

from vlib import fakenet, drive, gens
from vlib.runner import mkres

ID = 'C19'
RSA_FAMILY = ('ssh-rsa', 'rsa-sha2-256', 'rsa-sha2-512')
GEX = ('diffie-hellman-group-exchange-sha1', 'diffie-hellman-group-exchange-sha256')
RATE_MAX = 38
RATE_CONCURRENT = 3


def probeable_keys(keys):
    from ssh_audit.hostkeytest import HostKeyTest
    ks = [k for k in dict.fromkeys(keys) if k in HostKeyTest.HOST_KEY_TYPES]
    return len(ks)          # one per advertised probe-able host-key type (a failed RSA probe is retried under the next RSA name)


class Counters:
    """Counts entries into the functions behind --dheat and --conn-rate-test."""

    def __init__(self):
        self.calls = {}
        self.saved = []

    def __enter__(self):
        from ssh_audit.dheat import DHEat
        for name in ('run', '_run', 'worker_process', '_worker_process', 'dh_rate_test'):
            orig = DHEat.__dict__[name]
            f = orig.__func__ if isinstance(orig, staticmethod) else orig
            self.saved.append((name, orig))

            def mk(name, f, is_static):
                def w(*a, **kw):
                    self.calls[name] = self.calls.get(name, 0) + 1
                    if name == 'dh_rate_test' and a and len(a) > 1 and getattr(a[1], 'conn_rate_test_enabled', False):
                        self.calls['interactive_rate_test'] = self.calls.get('interactive_rate_test', 0) + 1
                    return f(*a, **kw)
                return staticmethod(w) if is_static else w
            setattr(DHEat, name, mk(name, f, isinstance(orig, staticmethod)))
        return self

    def __exit__(self, *a):
        from ssh_audit.dheat import DHEat
        for name, orig in self.saved:
            setattr(DHEat, name, orig)


def eval_ab(case):
    """Engine B: the real process with the real 1.5 s rate check against real sockets.  The server counts
    connections itself and must see EOF on every one of them once the process has exited."""
    from vlib import abcheck
    spec = dict(case['spec'])
    # how many connections does the audit proper make?  (engine A, rate check skipped)
    net = fakenet.FakeNet()
    p0 = fakenet.peer_from_spec(spec)
    net.add('h', 22, p0)
    drive.run_cli(['-n', '--skip-rate-test', 'h'], net)
    k = p0.nconn
    beh = case['rate_behaviour']
    if beh != 'normal':
        spec['faults'] = list(spec.get('faults', [])) + [['connect' if beh in ('close', 'stall') else 'banner', i, beh if beh in ('close', 'stall') else ['raw', beh[6:], 'close']] for i in range(k, k + 400)]
    ra, rb, peer_a, peer_b, eof = abcheck.run_both(spec, ['-n'], skip_rate=False)
    fails = []
    keys, kex = spec.get('key', []), spec.get('kex', [])
    bound = 1 + probeable_keys(keys) + 9 * len([x for x in dict.fromkeys(kex) if x in GEX]) + RATE_MAX + RATE_CONCURRENT
    if peer_b.nconn > bound:
        fails.append(['real-process-too-many-connections-when-server-%s' % beh.split(':')[0], '%d connections accepted by the real server, bound %d' % (peer_b.nconn, bound)])
    if len(eof) < peer_b.nconn:
        fails.append(['real-process-connection-not-closed-at-exit', 'server saw EOF on %d of %d connections' % (len(eof), peer_b.nconn)])
    rate_conns = [c for c in peer_b.conns if c.idx >= k]
    if any(c.bytes_from_client for c in rate_conns):
        fails.append(['real-process-data-sent-on-rate-check-connection', repr([(c.idx, c.bytes_from_client) for c in rate_conns if c.bytes_from_client][:3])])
    if rb.code not in (0, 2, 3):
        fails.append(['real-process-exit-status-%d' % rb.code, rb.out[-200:]])
    return mkres(case, nt=True, classes=['engine-B', 'rate:' + beh.split(':')[0], 'conns:%d' % min(peer_b.nconn, 99)], fails=fails, info={'connections': peer_b.nconn})


def eval_multi(case):
    """Several targets in one invocation: the bounds hold for each target on its own (every target is a server of its
    own at its own address)."""
    import os
    skip = case['skip_rate']
    net = fakenet.FakeNet()
    peers, hosts = [], []
    for i, spec in enumerate(case['specs']):
        p = fakenet.peer_from_spec(dict(spec))
        h = 'm%d' % i
        net.add(h, 22, p, ips=[(2, '10.19.0.%d' % (i + 1))])
        peers.append(p)
        hosts.append(h)
    tf = drive.tmpfile('\n'.join(hosts) + '\n')
    argv = ['-n'] + case.get('argv', []) + (['--skip-rate-test'] if skip else []) + ['--threads', str(case['threads']), '-T', tf]
    try:
        with Counters() as cnt:
            r = drive.run_cli(argv, net)
    finally:
        os.unlink(tf)
    fails = []
    if r.hang:
        return mkres(case, nt=True, classes=['multi'], fails=[['hang', r.brief()]])
    for i, (p, spec) in enumerate(zip(peers, case['specs'])):
        keys, kex = spec.get('key', []), spec.get('kex', [])
        ngex = len([k for k in dict.fromkeys(kex) if k in GEX])
        nkeys = probeable_keys(keys)
        nb = [c for c in p.conns if c.nonblocking]
        bl = [c for c in p.conns if not c.nonblocking]
        if len(bl) > 1 + nkeys + 9 * ngex:
            fails.append(['too-many-audit-connections', 'target %d of %d: %d handshake/probe connections, bound %d' % (i + 1, len(peers), len(bl), 1 + nkeys + 9 * ngex)])
        if skip and nb:
            fails.append(['rate-check-ran-despite-skip-option', 'target %d of %d in a -T run: %d connections' % (i + 1, len(peers), len(nb))])
        if len(nb) > RATE_MAX + RATE_CONCURRENT:
            fails.append(['rate-check-connections-unbounded-in-multi-target-run', 'target %d of %d: %d rate-check connections to this one server (bound %d + %d); counts per server %r' % (i + 1, len(peers), len(nb), RATE_MAX, RATE_CONCURRENT, [len([c for c in q.conns if c.nonblocking]) for q in peers])])
        for c in p.conns:
            if c.kex_exchanges > 1:
                fails.append(['more-than-one-kex-request-on-a-connection', 'target %d conn %d: %d' % (i + 1, c.idx, c.kex_exchanges)])
            if c.nonblocking and (c.kex_exchanges or c.bytes_from_client):
                fails.append(['data-sent-on-rate-check-connection', 'target %d conn %d' % (i + 1, c.idx)])
    leaked = [x for x in net.sockrecs if x['connected'] and not x['closed'] and not x['gc']]
    if leaked:
        fails.append(['connection-left-open-at-exit', 'argv %r: %d socket(s)' % (argv, len(leaked))])
    for name in ('run', '_run', 'worker_process', '_worker_process', 'interactive_rate_test'):
        if cnt.calls.get(name):
            fails.append(['dos-feature-entered-without-option', '%s called %d time(s) with argv %r' % (name, cnt.calls[name], argv)])
    return mkres(case, nt=True, classes=['multi', 'n:%d' % len(peers), 'rate:' + ('skipped' if skip else 'on'), 'threads:%d' % case['threads']], fails=fails[:6])


def eval_case(case):
    if case.get('kind') == 'ab':
        return eval_ab(case)
    if case.get('kind') == 'multi':
        return eval_multi(case)
    spec = dict(case['spec'])
    fails = []
    skip = case['skip_rate']
    peer = fakenet.peer_from_spec(spec)
    net = fakenet.FakeNet()
    if case.get('rate_refuse'):
        # the server disappears for the rate check: registered under a flag the fake consults at connect time
        peer.rate = 'normal'
    # the name may have several address records, each of them answering: the bounds are on what the audit opens in total
    ips = [(2, '10.0.0.1'), (2, '10.0.0.2'), (10, '2001:db8::1'), (2, '10.0.0.3')][:case.get('addresses', 1)]
    net.add('h', 22, peer, ips=ips)
    argv = ['-n'] + case.get('argv', []) + (['--skip-rate-test'] if skip else []) + ['h']
    with Counters() as cnt:
        r = drive.run_cli(argv, net)
    keys, kex = spec.get('key', []), spec.get('kex', [])
    ngex = len([k for k in dict.fromkeys(kex) if k in GEX])
    nkeys = probeable_keys(keys)
    rate_allow = 0 if skip else RATE_MAX + RATE_CONCURRENT
    bound = 1 + nkeys + 9 * ngex + rate_allow
    nb = [c for c in net.connects if c[4]]
    blocking = [c for c in net.connects if not c[4]]
    cl = ['address-records:%d' % case.get('addresses', 1), 'rate:' + ('skipped' if skip else spec.get('rate', 'normal')), 'conns:%d' % min(len(net.connects), 60) if len(net.connects) < 10 else 'conns:10+', 'gex:%d' % ngex, 'keys:%d' % nkeys] + (['policy'] if '-P' in argv else [])
    nt = len(net.connects) >= 3 or bool(spec.get('faults'))
    if r.hang:
        fails.append(['hang', r.brief()])
        return mkres(case, nt=nt, classes=cl, fails=fails)
    # connection counts
    if case.get('ssh1'):
        # one connection, or two when the SSH-2 attempt is answered with the version-mismatch text
        if len(net.connects) > 2:
            fails.append(['too-many-connections-to-ssh1-peer', 'argv %r spec %r: %d connections' % (argv, spec, len(net.connects))])
    elif len(blocking) > 1 + nkeys + 9 * ngex:
        fails.append(['too-many-audit-connections', 'argv %r: %d handshake/probe connections, bound 1 + %d host-key types + 9 x %d GEX algorithms' % (argv, len(blocking), nkeys, ngex)])
    if skip and nb:
        fails.append(['rate-check-ran-despite-skip-option', '%d connections' % len(nb)])
    if len(nb) > RATE_MAX + RATE_CONCURRENT:
        beh = spec.get('rate', 'normal')
        sig = 'rate-check-connections-unbounded' + ('' if beh == 'normal' else '-when-server-%s' % beh.split(':')[0])
        fails.append([sig, 'argv %r: %d rate-check connections (bound %d + %d in flight); server behaviour towards them: %s' % (argv, len(nb), RATE_MAX, RATE_CONCURRENT, beh)])
    # rate-check sockets: at most 3 open at once, nothing sent on them
    recs = {x['id']: x for x in net.sockrecs}
    sent_on_rate = [x['id'] for x in net.sockrecs if x['nonblocking'] and x['sent'] > 0]
    if sent_on_rate:
        fails.append(['data-sent-on-rate-check-connection', repr(sent_on_rate[:3])])
    for c in peer.conns:
        if c.nonblocking and c.bytes_from_client:
            fails.append(['data-sent-on-rate-check-connection', 'conn %d got %d bytes' % (c.idx, c.bytes_from_client)])
            break
    # concurrency of rate sockets: replay open/close order from the socket records is not available; use the peak counter
    # (sockets whose connection was refused are only dropped, not closed, and live until the next select: up to 3 old + 3 new)
    if not skip and net.max_open > 2 * RATE_CONCURRENT + 2:
        fails.append(['too-many-sockets-open-at-once', 'peak %d' % net.max_open])
    # key-exchange computation requests only in probes, one per connection
    for c in peer.conns:
        if c.idx == 0 and c.kex_exchanges:
            fails.append(['kex-request-on-initial-connection', 'conn 0: %d' % c.kex_exchanges])
        if c.kex_exchanges > 1:
            fails.append(['more-than-one-kex-request-on-a-connection', 'conn %d: %d' % (c.idx, c.kex_exchanges)])
        if c.nonblocking and c.kex_exchanges:
            fails.append(['kex-request-on-rate-check-connection', 'conn %d' % c.idx])
    # everything opened is closed when main() returns
    leaked = [x for x in net.sockrecs if x['connected'] and not x['closed'] and not x['gc']]
    if leaked:
        fails.append(['connection-left-open-at-exit', 'argv %r: %d socket(s): %r' % (argv, len(leaked), [(x['addr'], x['nonblocking']) for x in leaked[:3]])])
    # DoS / flood features only on request
    for name in ('run', '_run', 'worker_process', '_worker_process', 'interactive_rate_test'):
        if cnt.calls.get(name):
            fails.append(['dos-feature-entered-without-option', '%s called %d time(s) with argv %r' % (name, cnt.calls[name], argv)])
    if skip and cnt.calls.get('dh_rate_test'):
        fails.append(['rate-check-entered-despite-skip-option', repr(cnt.calls)])
    return mkres(case, nt=nt, classes=cl, fails=fails)


# ----------------------------------------------------------------------------------- generators

HOSTKEYS = {'ssh-ed25519': {'t': 'ed25519'}, 'ssh-rsa': {'t': 'rsa', 'bits': 2048}, 'rsa-sha2-256': {'t': 'rsa', 'bits': 2048}, 'rsa-sha2-512': {'t': 'rsa', 'bits': 2048}, 'ssh-ed448': {'t': 'ed448'},
            'ecdsa-sha2-nistp256': {'t': 'ecdsa', 'curve': 'nistp256'}, 'ssh-dss': {'t': 'dss'},
            'ssh-ed25519-cert-v01@openssh.com': {'t': 'cert', 'kind': 'ssh-ed25519-cert-v01@openssh.com', 'ca': {'t': 'ed25519'}},
            'ssh-rsa-cert-v01@openssh.com': {'t': 'cert', 'kind': 'ssh-rsa-cert-v01@openssh.com', 'bits': 3072, 'ca': {'t': 'rsa', 'bits': 4096}}}
FAULTS = ['close', 'stall', 'reset', ['trunc', 7, 'close'], ['trunc', 7, 'stall'], ['type', 99], ['reframe_trunc', 3], ['set_len', 0x1234], ['dup'], ['debug', 3], ['payload', '\x1f\x00\x00\x00\x00'],
          # a polite refusal: SSH_MSG_DISCONNECT with a reason (too many connections, by application, protocol error, ...), other transport messages
          ['disconnect', 12], ['disconnect', 11], ['disconnect', 2], ['disconnect', 7], ['disconnect', 1], ['disconnect', 0xffffffff], ['type', 2], ['type', 3], ['type', 7], ['type', 21]]
WHATS = ['connect', 'banner', 'kexinit', 'kexdh_reply', 'gex_group', 'gex_reply']
RATES = ['normal', 'normal', 'close', 'stall', 'reset', 'refuse', 'greet:Exceeded MaxStartups\r\n', 'greet:HTTP/1.1 400 Bad Request\r\n\r\n', 'greet:SSH', 'greet:\x00\x00\x00\x00',
         # servers that answer only some of the rate-check connections (every k-th gets a banner)
         'mixed:2:close', 'mixed:5:close', 'mixed:8:greet:Exceeded MaxStartups\r\n', 'mixed:3:reset', 'mixed:3:refuse', 'mixed:4:stall', 'mixed:13:close']


def strat_case():
    from ssh_audit.hostkeytest import HostKeyTest
    keytypes = sorted(HostKeyTest.HOST_KEY_TYPES) + ['unknown-key@example.com']
    kexes = ['curve25519-sha256', 'diffie-hellman-group14-sha256', 'diffie-hellman-group-exchange-sha256', 'diffie-hellman-group-exchange-sha1', 'ecdh-sha2-nistp256', 'sntrup761x25519-sha512@openssh.com', 'diffie-hellman-group1-sha1', 'foo@example.com']

    def build(t):
        kex, keys, moduli_mask, style, rate, skip, nf, fw, ff, fi, policy, banner, naddr = t
        sizes = [512, 768, 1024, 1536, 2048, 3072, 4096, 6144, 8192]
        spec = {'banner': banner, 'kex': list(kex) if moduli_mask % 3 == 0 else list(dict.fromkeys(kex)), 'key': list(keys) if moduli_mask % 5 == 0 else list(dict.fromkeys(keys)), 'hostkeys': {k: v for k, v in HOSTKEYS.items()},
                'moduli': [s for i, s in enumerate(sizes) if moduli_mask >> i & 1], 'gex_style': style, 'rate': rate,
                'faults': [[fw[i], fi[i], ff[i]] for i in range(nf)]}
        opts = [[], ['-j'], ['-b'], ['-v'], ['-jj', '-b'], ['-j', '-b', '-v'], ['-l', 'fail'], ['-4'], ['-t', '60'], ['-t', '16', '-j'], ['-t', '300'], ['-t', '1']][moduli_mask % 12]
        return {'spec': spec, 'skip_rate': skip, 'argv': opts + (['-P', 'Hardened OpenSSH Server v9.9 (version 1)'] if policy else []), 'addresses': naddr}
    return st.tuples(st.lists(st.sampled_from(kexes), min_size=1, max_size=5), st.lists(st.sampled_from(keytypes), min_size=1, max_size=8), st.integers(0, 511), st.sampled_from(['strict', 'roundup', 'openssh']),
                     st.sampled_from(RATES), st.sampled_from([False, False, True]), st.integers(0, 2), st.lists(st.sampled_from(WHATS), min_size=2, max_size=2), st.lists(st.sampled_from(FAULTS), min_size=2, max_size=2),
                     st.lists(st.sampled_from([0, 1, 2, 3, 5, '*', '1+', '2+', '3+', '5+']), min_size=2, max_size=2), st.sampled_from([False, False, False, True]), st.sampled_from(['SSH-2.0-OpenSSH_8.9', 'SSH-2.0-dropbear_2022.83']), st.sampled_from([1, 1, 1, 2, 3, 4])).map(build)


def valid_case(case):
    return len(case['spec']['kex']) >= 1 and len(case['spec']['key']) >= 1


NO_SHRINK_KEYS = ('faults', 'hostkeys')


def run(ctx):
    ctx.hyp('strat_case', 15000 if ctx.quick else 250000, label=1)
    # dedicated rate-check grid
    grid = []
    base = {'kex': ['curve25519-sha256', 'diffie-hellman-group-exchange-sha256'], 'key': ['ssh-ed25519', 'rsa-sha2-512'], 'hostkeys': HOSTKEYS, 'moduli': [2048, 4096], 'gex_style': 'openssh'}
    for rate in sorted(set(RATES)):
        for kexes in (['curve25519-sha256'], ['diffie-hellman-group14-sha256', 'diffie-hellman-group-exchange-sha256'], ['sntrup761x25519-sha512@openssh.com']):
            for skip in (False, True):
                grid.append({'spec': dict(base, kex=kexes, rate=rate), 'skip_rate': skip, 'argv': []})
                grid.append({'spec': dict(base, kex=kexes, rate=rate), 'skip_rate': skip, 'argv': ['-j']})
                grid.append({'spec': dict(base, kex=kexes, rate=rate), 'skip_rate': skip, 'argv': ['-t', ['60', '16', '600', '2'][len(grid) % 4]]})      # the footprint does not depend on the patience asked for
    # throttling servers: one banner every so many milliseconds, over the whole range in which the measured rate crosses the safe limit
    for ms in list(range(20, 400, 10 if ctx.quick else 2)) + [500, 800, 1200]:
        for kexes in (['diffie-hellman-group14-sha256'], ['diffie-hellman-group-exchange-sha256', 'curve25519-sha256']):
            grid.append({'spec': dict(base, kex=kexes, rate='paced:%d' % ms), 'skip_rate': False, 'argv': [['-j'], []][ms % 20 == 0]})
    ctx.map(grid)
    # SSH-1 peers: -1, the version-mismatch fallback, and a peer that keeps answering with the mismatch text
    s1 = []
    for spec in ({'proto': 1}, {'proto': 1, 'always_differ': True}, {'proto': 1, 'bad_crc': True}, {'proto': 1, 'faults': [['pkm', '*', 'close']]}):
        for argv in ([], ['-1'], ['-j'], ['-2']):
            for skip in (False, True):
                s1.append({'spec': spec, 'skip_rate': skip, 'argv': argv, 'ssh1': True})
    ctx.map(s1)
    multi = []
    for n in (2, 3, 5):
        for threads in (1, 2, n):
            for skip in (False, True):
                for j, argv in enumerate(([], ['-j'], ['-P', 'Hardened OpenSSH Server v9.9 (version 1)'])):
                    specs = [dict(base, kex=[['curve25519-sha256'], ['diffie-hellman-group14-sha256', 'diffie-hellman-group-exchange-sha256'], ['diffie-hellman-group-exchange-sha1', 'curve25519-sha256']][(i + j) % 3],
                                  rate=['normal', 'close', 'mixed:3:close', 'greet:Exceeded MaxStartups\r\n'][(i + n) % 4]) for i in range(n)]
                    multi.append({'kind': 'multi', 'specs': specs, 'threads': threads, 'skip_rate': skip, 'argv': argv})
    ctx.map(multi)
    ab = []
    for beh in ['normal', 'close', 'greet:Exceeded MaxStartups\r\n', 'stall'] + ([] if ctx.quick else ['greet:HTTP/1.1 400 Bad Request\r\n\r\n', 'greet:SSH']):
        for kexes in ((['curve25519-sha256'],) if ctx.quick else (['curve25519-sha256'], ['diffie-hellman-group14-sha256', 'diffie-hellman-group-exchange-sha256'])):
            ab.append({'kind': 'ab', 'spec': dict(base, kex=kexes), 'rate_behaviour': beh})
    ctx.map(ab, chunk=1)
    ctx.note(rate_grid_cases=len(grid), traces_validated_against_impl=len(ab))
    return ctx.finish('fault_enumeration', 'Hypothesis servers: 1-5 key exchanges (probe-capable, GEX, unknown), 1-8 host-key types over the whole probe table, every moduli subset x 3 selection styles, 0-2 faults (close / stall / reset / truncation / wrong type / garbage / duplicate / debug messages) on any message of connections 0-5, behaviour towards the rate check (answers, closes at once, stalls, resets, refuses, greets with MaxStartups / HTTP / partial / binary text, or answers only every k-th connection), with and without --skip-rate-test, standard and policy audits; plus a dedicated rate-check grid and runs over 2-5 targets (each at its own address, 1..n threads, rate check on and skipped); invariants over the connection log; non-trivial = at least 3 connections or a misbehaving server',
                      assumptions=['the virtual clock advances a fixed quantum per clock read and by the timeout per empty select, so the 1.5 s rate-check window always ends', 'sockets reclaimed by the garbage collector count as closed at exit'])

"""C17 — the tool's knowledge tables agree with each other (exhaustive over the tables in the tree)."""
import json
import re

from vlib import fakenet, drive, polpeer
from vlib.runner import mkres

ID = 'C17'

# primitive -> regex over the algorithm name.  One pattern per primitive the SSH-2 table brands
# with a FAIL_* constant (or, for none/DSA/NIST curves/1024-bit groups, with a failure text).
BROKEN = {
    'md5': r'md5',
    'sha1': r'sha1(?![0-9])',
    'rc4': r'arcfour|(^|[^a-z0-9])rc4',
    'des': r'(^|[^a-z])3?des([^a-z]|$)',
    'none': r'^none$|^null',
    'dsa': r'dss|(^|[^a-z])dsa',
    'group1': r'group1-|(^|[^0-9])1024([^0-9]|$)',
    'nist-curve': r'nist[pkbt][0-9]',
    # the same curves named by object identifier (P-192, P-256, P-224, P-384, P-521 and the NIST binary curves), as in ecdh-sha2-<oid>
    'nist-curve-oid': r'(^|-)(1\.2\.840\.10045\.3\.1\.(1|7)|1\.3\.132\.0\.(1|16|26|27|33|34|35|36|37|38))($|-|@)',
    'blowfish': r'blowfish',
    'cast': r'cast128',
    'idea': r'idea',
    'rijndael': r'rijndael',
    'ripemd': r'ripemd',
    'seed': r'(^|[^a-z])seed',
    'serpent': r'serpent',
}
# RFC 5656 6.1 / 10.1: curves without a short name go by the base64 MD5 digest of their object identifier
CURVE_DIGEST_OID = {'4MHB+NBt3AlaSRQ7MnB4cg==': '1.3.132.0.1', '5pPrSUQtIaTjUSt5VZNBjg==': '1.2.840.10045.3.1.1', '9UzNcgwTlEnSCECZa7V1mw==': '1.2.840.10045.3.1.7', 'D3FefCjYoJ/kfXgAyLddYA==': '1.3.132.0.37',
                    'h/SsxnLCtRBh7I9ATyeB3A==': '1.3.132.0.35', 'm/FtSAmrV4j/Wy6RVUaK7A==': '1.3.132.0.36', 'mNVwCXAoS1HGmHpLvBC94w==': '1.3.132.0.38', 'qCbG5Cn/jjsZ7nBeR7EnOA==': '1.3.132.0.27',
                    'qcFQaMAMGhTziMT0z+Tuzw==': '1.3.132.0.34', 'VqBg4QRPjxx1EXZdV0GdWQ==': '1.3.132.0.33', 'wiRIU8TKjMZ418sMqlqtvQ==': '1.3.132.0.16', 'zD/b3hu/71952ArpUG4OjQ==': '1.3.132.0.26'}
CAT_OF_FIELD = {'host_keys': 'key', 'optional_host_keys': 'key', 'kex': 'kex', 'ciphers': 'enc', 'macs': 'mac'}


def _dbs():
    from ssh_audit.ssh2_kexdb import SSH2_KexDB
    from ssh_audit.ssh1_kexdb import SSH1_KexDB
    return {'ssh2': SSH2_KexDB.MASTER_DB, 'ssh1': SSH1_KexDB.MASTER_DB}


def eval_case(case):
    k = case['kind']
    fails = []
    dbs = _dbs()
    if k == 'entry':
        e = dbs[case['table']][case['cat']][case['name']]
        name = case['name']
        hits = [p for p, rx in BROKEN.items() if re.search(rx, name)]
        for dg, oid in CURVE_DIGEST_OID.items():
            # the same curve under its digest name: branded wherever the table brands it under its object identifier
            if name.endswith('-' + dg) and any(n2.endswith('-' + oid) and len(e2) > 1 and len(e2[1]) > 0 for n2, e2 in dbs[case['table']][case['cat']].items()):
                hits.append('curve-digest-of-' + oid)
        nf = len(e[1]) if len(e) > 1 else 0
        for p in hits:
            if nf == 0:
                fails.append(['broken-primitive-without-failure:%s/%s/%s' % (case['table'], case['cat'], name), 'name matches broken primitive %s but the entry has no failure: %r' % (p, e)])
                break
        ok = isinstance(e, list) and 1 <= len(e) <= 4 and isinstance(e[0], list) and len(e[0]) <= 3 and all(x is None or isinstance(x, str) for x in e[0]) and all(isinstance(l, list) and all(isinstance(x, str) for x in l) for l in e[1:])
        if not ok:
            fails.append(['entry-shape', '%s/%s/%s: %r' % (case['table'], case['cat'], name, e)])
        # version descriptors must be parseable: [d|l1]digits(.digits)*[C]
        if ok:
            for v in e[0]:
                if v:
                    for d in v.split(','):
                        if not re.fullmatch(r'(d|l1)?\d+(\.\d+)*C?', d):
                            fails.append(['entry-version-syntax', '%s/%s/%s: %r' % (case['table'], case['cat'], name, d)])
        return mkres(case, key='%s/%s/%s' % (case['table'], case['cat'], name), nt=bool(hits) or case.get('referenced', False), classes=['entry', case['table']] + ['hit:' + h for h in hits], fails=fails)
    if k == 'ref':
        # a name used by another table must exist in the right category of the rating database
        db = dbs['ssh2']
        if case['name'] not in db[case['cat']]:
            fails.append(['unknown-name-in-%s' % case['source'].split(':')[0], '%s names %s algorithm %r which the rating database does not know' % (case['source'], case['cat'], case['name'])])
        return mkres(case, nt=True, classes=['ref:' + case['source'].split(':')[0]], fails=fails)
    if k == 'probe-table-runtime':
        # the table the host-key probe *actually uses* for a given peer (it is handed to perform_test at run time)
        from ssh_audit.hostkeytest import HostKeyTest
        used = []
        orig = HostKeyTest.perform_test

        def spy(out, s, server_kex, kex_str, kex_group, host_key_types):
            used.extend(list(host_key_types))
            return orig(out, s, server_kex, kex_str, kex_group, host_key_types)
        HostKeyTest.perform_test = staticmethod(spy)
        try:
            spec = {'kex': ['curve25519-sha256'], 'key': case['keys'], 'hostkeys': {n: {'t': 'cert', 'kind': 'ssh-ed25519-cert-v01@openssh.com', 'ca': {'t': 'ed25519'}} if '-cert-' in n else {'t': 'ed25519'} for n in case['keys']}}
            net = fakenet.FakeNet()
            net.add('h', 22, fakenet.Server(spec))
            r = drive.run_cli(['-n', '-j', '--skip-rate-test', 'h'], net)
        finally:
            HostKeyTest.perform_test = staticmethod(orig)
        db = dbs['ssh2']
        unknown = sorted({n for n in used if n not in db['key']})
        if unknown:
            fails.append(['probe-table-names-unknown-algorithm-at-run-time', 'peer advertising %r: probe table used %r' % (case['keys'], unknown)])
        if r.exc:
            fails.append(['probe-of-table-like-name-crashes:%s' % drive.crash_sig(r), r.brief()])
        return mkres(case, nt=True, classes=['probe-table-runtime'], fails=fails)
    if k == 'runtime-table':
        # the working copy of the table after a standard audit (probes answered): measuring sizes may add notes, it may not
        # leave an entry of a broken primitive without any failure
        from ssh_audit.ssh2_kexdb import SSH2_KexDB
        net = fakenet.FakeNet()
        net.add('h', 22, fakenet.Server(case['spec']))
        r = drive.run_cli(['-n', '-j', '--skip-rate-test', 'h'], net)
        work = SSH2_KexDB.get_db()
        for cat, d in work.items():
            for name, e in d.items():
                if any(re.search(rx, name) for rx in BROKEN.values()) and not (len(e) > 1 and len(e[1]) > 0):
                    if len(dbs['ssh2'][cat][name]) > 1 and dbs['ssh2'][cat][name][1]:
                        fails.append(['broken-primitive-loses-its-failure-during-an-audit', '%s %s after auditing %r: %r' % (cat, name, {kk: case['spec'][kk] for kk in ('kex', 'key', 'moduli')}, e)])
        if r.exc:
            fails.append([drive.crash_sig(r), r.brief()])
        return mkres(case, nt=True, classes=['runtime-table'], fails=fails)
    if k == 'policy-static':
        from ssh_audit.builtin_policies import BUILTIN_POLICIES
        pol = BUILTIN_POLICIES[case['policy']]
        db = dbs['ssh2']
        for field, cat in CAT_OF_FIELD.items():
            for n in pol.get(field) or []:
                e = db[cat].get(n)
                if e is not None and len(e) > 1 and len(e[1]) > 0:
                    fails.append(['policy-permits-failed-algorithm', '%s: %s %r is rated %r' % (case['policy'], field, n, e[1])])
        for kt, info in (pol.get('hostkey_sizes') or {}).items():
            hs = info.get('hostkey_size', 0)
            if ('rsa' in kt and hs < 3072):
                fails.append(['policy-permits-small-key', '%s: %s %d bits' % (case['policy'], kt, hs)])
            if info.get('ca_key_type', '') in ('ssh-rsa',) and 0 < info.get('ca_key_size', 0) < 3072:
                fails.append(['policy-permits-small-ca-key', '%s: %s' % (case['policy'], kt)])
        for a, sz in (pol.get('dh_modulus_sizes') or {}).items():
            if sz < 3072:
                fails.append(['policy-permits-small-modulus', '%s: %s %d' % (case['policy'], a, sz)])
        return mkres(case, nt=True, classes=['policy-static'], fails=fails)
    if k == 'policy-audit':
        from ssh_audit.builtin_policies import BUILTIN_POLICIES
        pol = BUILTIN_POLICIES[case['policy']]
        spec = polpeer.spec_from_policy(pol, optional=case.get('optional', []))
        net = fakenet.FakeNet()
        peer = fakenet.Server(spec)
        if pol['server_policy']:
            net.add('h', 22, peer)
            r = drive.run_cli(['-n', '-j', '--skip-rate-test', 'h'], net)
        else:
            net.pending_clients.append(peer)
            r = drive.run_cli(['-n', '-j', '-c'], net)
        if r.exc or r.code not in (0, 2, 3):
            fails.append(['policy-peer-audit-did-not-complete', r.brief()])
        else:
            doc = json.loads(r.out)
            for cat in ('kex', 'key', 'enc', 'mac'):
                for e in doc[cat]:
                    if e['notes'].get('fail'):
                        fails.append(['policy-configured-peer-shows-failure', '%s: %s %s: %r' % (case['policy'], cat, e['algorithm'], e['notes']['fail'])])
            if r.code == 3 and not fails:
                fails.append(['policy-configured-peer-exits-3', case['policy']])
        return mkres(case, nt=True, classes=['policy-audit', 'server' if pol['server_policy'] else 'client'], fails=fails)
    raise ValueError(k)


def run(ctx):
    from ssh_audit.builtin_policies import BUILTIN_POLICIES
    from ssh_audit.hostkeytest import HostKeyTest
    from ssh_audit.dheat import DHEat
    dbs = _dbs()
    refs = []
    for pname, pol in BUILTIN_POLICIES.items():
        for field, cat in CAT_OF_FIELD.items():
            for n in pol.get(field) or []:
                refs.append({'kind': 'ref', 'source': 'policy:%s:%s' % (pname, field), 'cat': cat, 'name': n})
        for n in (pol.get('hostkey_sizes') or {}):
            refs.append({'kind': 'ref', 'source': 'policy:%s:hostkey_sizes' % pname, 'cat': 'key', 'name': n})
        for n in (pol.get('dh_modulus_sizes') or {}):
            refs.append({'kind': 'ref', 'source': 'policy:%s:dh_modulus_sizes' % pname, 'cat': 'kex', 'name': n})
    for n in HostKeyTest.HOST_KEY_TYPES:
        refs.append({'kind': 'ref', 'source': 'hostkey-probe-table:HOST_KEY_TYPES', 'cat': 'key', 'name': n})
    for n in HostKeyTest.RSA_FAMILY:
        refs.append({'kind': 'ref', 'source': 'hostkey-probe-table:RSA_FAMILY', 'cat': 'key', 'name': n})
    for tbl in ('gex_algs', 'alg_priority', 'alg_modulus_sizes', 'tested_algs', 'HARDCODED_ALGS', 'COMPLEX_PQ_ALGS'):
        for n in getattr(DHEat, tbl):
            refs.append({'kind': 'ref', 'source': 'dheat-table:%s' % tbl, 'cat': 'kex', 'name': n})
    # the probe code's own kex -> group table is local to a function: read it from the source
    import inspect
    src = inspect.getsource(HostKeyTest.run)
    for n in re.findall(r"^\s+'([^']+)': Kex", src, re.M):
        refs.append({'kind': 'ref', 'source': 'hostkey-probe-table:KEX_TO_DHGROUP', 'cat': 'kex', 'name': n})
    referenced = {(r['cat'], r['name']) for r in refs}
    entries = []
    for t, db in dbs.items():
        for cat, d in db.items():
            for name in d:
                entries.append({'kind': 'entry', 'table': t, 'cat': cat, 'name': name, 'referenced': t == 'ssh2' and (cat, name) in referenced})
    ctx.map(entries, chunk=64)
    ctx.map(refs, chunk=256)
    pols = [{'kind': 'policy-static', 'policy': p} for p in BUILTIN_POLICIES]
    audits = []
    for p, pol in BUILTIN_POLICIES.items():
        audits.append({'kind': 'policy-audit', 'policy': p, 'optional': []})
        for o in pol.get('optional_host_keys') or []:
            audits.append({'kind': 'policy-audit', 'policy': p, 'optional': [o]})
    ctx.map(pols)
    # run-time view of the probe table: peers advertising every table name, and look-alike names of other format versions
    base = sorted(HostKeyTest.HOST_KEY_TYPES)
    rt = [{'kind': 'probe-table-runtime', 'keys': base}]
    for b in base:
        stem = b.split('-cert-')[0] if '-cert-' in b else b
        for variant in ('%s-cert-v02@openssh.com' % stem, '%s-cert-v00@openssh.com' % stem, '%s-cert-v01@example.com' % stem, stem + '@openssh.com'):
            rt.append({'kind': 'probe-table-runtime', 'keys': ['ssh-ed25519', variant]})
    ctx.map(rt)
    rtt = []
    for moduli in ([1024], [2048], [3072], [4096], [2048, 4096]):
        for bits in (1024, 2048, 4096):
            for style in ('roundup', 'openssh'):
                for banner in ('SSH-2.0-OpenSSH_8.0', 'SSH-2.0-dropbear_2020.81'):
                    rtt.append({'kind': 'runtime-table', 'spec': {'banner': banner, 'kex': ['diffie-hellman-group14-sha1', 'diffie-hellman-group-exchange-sha1', 'diffie-hellman-group-exchange-sha256', 'diffie-hellman-group1-sha1'], 'key': ['ssh-rsa', 'ssh-dss', 'ecdsa-sha2-nistp256', 'ssh-rsa-cert-v01@openssh.com'],
                                'enc': ['3des-cbc', 'arcfour', 'aes128-ctr'], 'mac': ['hmac-md5', 'hmac-sha1', 'hmac-sha1-etm@openssh.com'], 'moduli': moduli, 'gex_style': style,
                                'hostkeys': dict({n: {'t': 'rsa', 'bits': bits} for n in ('ssh-rsa', 'rsa-sha2-256', 'rsa-sha2-512')}, **{'ssh-dss': {'t': 'dss'}, 'ecdsa-sha2-nistp256': {'t': 'ecdsa', 'curve': 'nistp256'}, 'ssh-rsa-cert-v01@openssh.com': {'t': 'cert', 'kind': 'ssh-rsa-cert-v01@openssh.com', 'bits': bits, 'ca': {'t': 'rsa', 'bits': 4096}}})}})
    ctx.map(rtt)
    ctx.map(audits)
    ctx.exhaustive = True
    ctx.note(db_entries=len(entries), cross_references=len(refs), builtin_policies=len(pols), policy_audits=len(audits))
    return ctx.finish('exploration', 'exhaustive enumeration of the tables as imported from the tree: every rating-database entry (both protocols), every name used by a built-in policy / probe table / DHEat table, every built-in policy statically and through a standard audit of a peer configured as the policy lists (with each optional host key); non-trivial = entry hit by a broken-primitive pattern or referenced by another table, every cross-reference, every policy',
                      assumptions=['the broken-primitive patterns are the ones listed in checks/c17.py (one per primitive the SSH-2 table brands as a failure)'])

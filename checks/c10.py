"""C10 — wire encoding and decoding are exact inverses and packets are well-framed.

Function-level: the tool's WriteBuf/ReadBuf/SSH2_Kex/SSH1_PublicKeyMessage/SSH_Socket framing are
driven with generated values; the oracle is the independent RFC 4251/4253 codec in vlib/wire.py.
"""
import struct

from hypothesis import strategies as st

from vlib import wire, fakenet
from vlib.runner import mkres

ID = 'C10'
WORDS = [0, 1, 0x7fffffff, 0x80000000, 0xffffffff, 0x00000080, 0x0000ff00, 0x80000001]


# ------------------------------------------------------------------------ helpers around the tool

class _CapSock:
    def __init__(self, data=b'', seg=0):
        self.sent = b''
        self.data = bytearray(data)
        self.seg = seg

    def send(self, d):
        self.sent += bytes(d)
        return len(d)

    def recv(self, n):
        if self.seg:
            n = min(n, self.seg)
        if not self.data:
            import socket
            raise socket.timeout('timed out')
        d = bytes(self.data[:n])
        del self.data[:n]
        return d

    def settimeout(self, t):
        pass

    def shutdown(self, how):
        pass

    def close(self):
        pass


def _tool_socket(data=b'', seg=0):
    from ssh_audit.ssh_socket import SSH_Socket
    from ssh_audit.outputbuffer import OutputBuffer
    s = SSH_Socket(OutputBuffer(), 'h', 22)
    cap = _CapSock(data, seg)
    s._SSH_Socket__sock = cap
    return s, cap


def _mp2(n):
    from ssh_audit.writebuf import WriteBuf
    from ssh_audit.readbuf import ReadBuf
    enc = WriteBuf().write_mpint2(n).write_flush()
    dec = ReadBuf(enc).read_mpint2()
    return enc, dec


# ------------------------------------------------------------------------ case evaluation

def valid_case(case):
    if case.get('kind') == 'kexinit':
        return len(case['lists']) == 10 and all(len(l) >= 1 and (l == [''] or all(n != '' for n in l)) for l in case['lists'])
    if case.get('kind') == 'namelist':
        return len(case['names']) >= 1
    if case.get('kind') == 'opseq':
        return len(case['ops']) >= 1 and all(len(o) == 2 and (o[0] != 'list' or len(o[1]) >= 1) for o in case['ops'])
    return True


def eval_case(case):
    import contextlib, io
    from vlib.runner import tool_exception_sig
    with contextlib.redirect_stdout(io.StringIO()):
        try:
            return _eval_case(case)
        except Exception as e:
            sig = tool_exception_sig(e)
            if sig is None:
                raise
            return mkres(case, nt=True, classes=[case.get('kind', '?')], fails=[[sig, '%r on %r' % (e, case)]])


def _eval_case(case):
    if case.get('kind') == 'fuzz':
        from vlib import fuzzrun
        return fuzzrun.eval_fuzz_case(case)
    from ssh_audit.writebuf import WriteBuf
    from ssh_audit.readbuf import ReadBuf
    k = case['kind']
    fails = []
    nt = False
    classes = [k]
    if k == 'mpint2':
        n = int(case['n'])
        ref = wire.mpint(n)
        enc, dec = _mp2(n)
        words_top = any(((abs(n) >> (32 * i)) & 0x80000000) for i in range(0, max(1, (abs(n).bit_length() + 31) // 32)))
        nt = abs(n) >= 2 ** 31 or words_top
        if n < 0:
            classes.append('negative')
        if abs(n) >= 2 ** 31:
            classes.append('multiword')
        if enc != ref:
            fails.append(['mpint2-encode', 'n=%d tool=%s ref=%s' % (n, enc[:40].hex(), ref[:40].hex())])
        if dec != n:
            sig = 'mpint2-decode-negative-multiword' if (n < 0 and abs(n) >= 2 ** 31) else 'mpint2-decode'
            fails.append([sig, 'n=%d decoded=%d' % (n, dec)])
        # decode the reference bytes as well (decoder must not depend on the tool's own encoder)
        dec2 = ReadBuf(ref).read_mpint2()
        if dec2 != n and dec == n:
            fails.append(['mpint2-decode-of-reference-bytes', 'n=%d decoded=%d' % (n, dec2)])
    elif k == 'mpint1':
        n = int(case['n'])
        ref = wire.mpint1(n)
        enc = WriteBuf().write_mpint1(n).write_flush()
        dec = ReadBuf(enc).read_mpint1()
        nt = n >= 2 ** 31
        if enc != ref:
            fails.append(['mpint1-encode', 'n=%d tool=%s ref=%s' % (n, enc[:40].hex(), ref[:40].hex())])
        if dec != n:
            fails.append(['mpint1-decode', 'n=%d decoded=%d' % (n, dec)])
    elif k == 'scalars':
        b, boo, u, s = case['byte'], case['bool'], case['u32'], case['str'].encode('latin-1')
        w = WriteBuf()
        w.write_byte(b).write_bool(boo).write_int(u).write_string(s).write(s)
        enc = w.write_flush()
        ref = bytes([b]) + (b'\x01' if boo else b'\x00') + struct.pack('>I', u) + wire.sstr(s) + s
        nt = u >= 2 ** 31 or len(s) > 0
        if enc != ref:
            fails.append(['scalar-encode', '%r tool=%s ref=%s' % (case, enc.hex()[:80], ref.hex()[:80])])
        r = ReadBuf(enc)
        got = (r.read_byte(), r.read_bool(), r.read_int(), r.read_string(), r.read(len(s)))
        if got != (b, boo, u, s, s) or r.unread_len != 0:
            fails.append(['scalar-decode', '%r -> %r' % (case, got)])
    elif k == 'namelist':
        names = case['names']
        enc = WriteBuf().write_list(names).write_flush()
        ref = wire.namelist(names)
        nt = len(names) > 1 or any(ord(c) > 127 for n in names for c in n)
        if enc != ref:
            fails.append(['namelist-encode', '%r tool=%s ref=%s' % (names, enc.hex()[:80], ref.hex()[:80])])
        dec = ReadBuf(enc).read_list()
        if dec != names:
            fails.append(['namelist-decode', '%r -> %r' % (names, dec)])
    elif k == 'histories':
        # values live on after they were decoded or encoded: what one holder does to its copy is no other holder's business,
        # and an object that was changed encodes what it holds now
        from ssh_audit.ssh2_kex import SSH2_Kex
        from ssh_audit.outputbuffer import OutputBuffer
        names = case['names']
        nt = True
        enc = wire.namelist(names)
        first = ReadBuf(enc).read_list()
        first.append('edited-by-first-holder')
        if len(first) > 1:
            first[0] = 'x'
        again = ReadBuf(enc).read_list()
        if again != names:
            fails.append(['decoded-list-shared-between-holders', '%r decoded again after the first result was edited: %r' % (names, again)])
        B = lambda l: [x.encode('latin-1') for x in l]
        payload = wire.kexinit(B(names), [b'ssh-ed25519'], B(names[::-1]), [b'hmac-sha2-256'])
        k1 = SSH2_Kex.parse(OutputBuffer(), payload[1:])
        k1.kex_algorithms.append('edited')
        k1.server.encryption.reverse()
        k2 = SSH2_Kex.parse(OutputBuffer(), payload[1:])
        if k2.kex_algorithms != names or k2.server.encryption != names[::-1] or k2.payload != payload[1:]:
            fails.append(['decoded-message-shared-between-holders', 'second parse of the same bytes after the first object was edited: %r / %r' % (k2.kex_algorithms, k2.server.encryption)])
        # encode, edit in place, encode again
        k3 = SSH2_Kex.parse(OutputBuffer(), payload[1:])
        p_before = k3.payload
        k3.kex_algorithms.append(case['extra'])
        k3.server.mac.insert(0, case['extra'])
        p_after = k3.payload
        try:
            ref = wire.parse_kexinit(b'\x14' + p_after, strict=True)
            if [x.decode('latin-1') for x in ref['kex']] != names + [case['extra']] or [x.decode('latin-1') for x in ref['mac_s2c']] != [case['extra'], 'hmac-sha2-256']:
                fails.append(['edited-message-encodes-stale-value', 'after appending %r the message encodes kex %r, s2c MACs %r' % (case['extra'], ref['kex'][-2:], ref['mac_s2c'])])
        except ValueError as e:
            fails.append(['edited-message-does-not-decode', str(e)])
        if p_before != payload[1:]:
            fails.append(['kexinit-reencode', 'before the edit'])
        w = WriteBuf()
        k3.write(w)
        if w.write_flush() != p_after:
            fails.append(['write-and-payload-disagree', 'after an in-place edit'])
    elif k == 'dheat_packets':
        # the packets the (explicitly requested) DoS test builds by hand: framed per RFC 4253 6, and the string inside
        # announces exactly the bytes that follow, for every algorithm and every length setting
        from ssh_audit.dheat import DHEat
        from ssh_audit.auditconf import AuditConf
        from ssh_audit.ssh2_kex import SSH2_Kex
        from ssh_audit.outputbuffer import OutputBuffer
        # the object is built the way the tool builds it (constructor, then generate_kex for the algorithm chosen)
        kex = SSH2_Kex.parse(OutputBuffer(), wire.kexinit([case['alg'].encode(), b'curve25519-sha256'], [b'ssh-ed25519'], [b'aes128-ctr'], [b'hmac-sha2-256'])[1:])
        with fakenet.FakeNet().installed():
            d = DHEat(OutputBuffer(), AuditConf('192.0.2.1', 22), None, kex)
        d.generate_kex(case['alg'])
        d.e_rand_len = case['elen']
        nt = True
        pkts = [('kexdh-init', d.make_dh_kexinit(case['alg']), 30), ('gex-init', d.make_dh_kexinit(case['alg'], gex_msb=case['msb']), 32), ('gex-request', d.make_gex_request(case['bits']), 34)]
        pkts += [('kexinit', d.make_kexinit(), 20) for _ in range(1500 if case['elen'] == 0 else 3)]      # (its cookie is random: many of them)
        for what, raw, mtype in pkts:
            pl, problems = wire.check_packet_framing(raw)
            if problems or pl is None:
                fails.append(['dheat-packet-framing', '%s for %s (length setting %d): %s' % (what, case['alg'], case['elen'], '; '.join(problems))])
                continue
            if pl[0] != mtype:
                fails.append(['dheat-packet-type', '%s: type %d' % (what, pl[0])])
            if what in ('kexdh-init', 'gex-init'):
                n = struct.unpack('>I', pl[1:5])[0]
                if n != len(pl) - 5:
                    fails.append(['dheat-string-length-inconsistent', '%s for %s (length setting %d): the string announces %d bytes, %d follow' % (what, case['alg'], case['elen'], n, len(pl) - 5)])
            if what == 'gex-request' and (len(pl) != 13 or struct.unpack('>III', pl[1:]) != (case['bits'],) * 3):
                fails.append(['dheat-gex-request', pl.hex()])
            if what == 'kexinit':
                try:
                    k2 = wire.parse_kexinit(pl, strict=True)
                    if k2['kex'] != [case['alg'].encode()]:
                        fails.append(['dheat-kexinit-does-not-parse', 'key exchanges %r' % (k2['kex'][:3],)])
                        break
                except ValueError as e:
                    fails.append(['dheat-kexinit-does-not-parse', str(e)])
                    break
    elif k == 'kexinit_long':
        # one very long name-list inside a whole KEXINIT: parse -> same names; write -> same bytes
        from ssh_audit.ssh2_kex import SSH2_Kex
        from ssh_audit.outputbuffer import OutputBuffer
        lists = [[b'x%d' % j] for j in range(10)]
        lists[case['field']] = [b'n%x' % i for i in range(case['n'])]
        payload = wire.kexinit(lists[0], lists[1], lists[3], lists[5], lists[7], lists[9], enc_c=lists[2], mac_c=lists[4], comp_c=lists[6], lang_c=lists[8])
        kex = SSH2_Kex.parse(OutputBuffer(), payload[1:])
        got = [kex.kex_algorithms, kex.key_algorithms, kex.client.encryption, kex.server.encryption, kex.client.mac, kex.server.mac, kex.client.compression, kex.server.compression, kex.client.languages, kex.server.languages]
        want = [[x.decode() for x in l] for l in lists]
        nt = True
        if got != want:
            bad = [i for i in range(10) if got[i] != want[i]]
            fails.append(['kexinit-fields', 'field %d with %d names: decoded lists differ in fields %r (lengths %r)' % (case['field'], case['n'], bad, [len(got[i]) for i in bad])])
        if kex.payload != payload[1:]:
            fails.append(['kexinit-reencode', 'field %d with %d names' % (case['field'], case['n'])])
    elif k == 'kexinit':
        from ssh_audit.ssh2_kex import SSH2_Kex
        from ssh_audit.outputbuffer import OutputBuffer
        L = case['lists']
        payload = wire.kexinit(L[0], L[1], L[3], L[5], L[7], L[9], enc_c=L[2], mac_c=L[4], comp_c=L[6], lang_c=L[8], cookie=case['cookie'].encode('latin-1'), follows=case['follows'], reserved=case['reserved'])
        body = payload[1:]
        nt = len(set(map(tuple, L))) > 3 or case['follows'] or case['reserved'] != 0
        kx = SSH2_Kex.parse(OutputBuffer(), body)
        if kx.payload != body:
            fails.append(['kexinit-reencode', 'payload %s -> %s' % (body.hex()[:120], kx.payload.hex()[:120])])
        got = [kx.kex_algorithms, kx.key_algorithms, kx.client.encryption, kx.server.encryption, kx.client.mac, kx.server.mac, kx.client.compression, kx.server.compression, kx.client.languages, kx.server.languages]
        if got != L or kx.cookie != case['cookie'].encode('latin-1') or kx.follows != case['follows'] or kx.unused != case['reserved']:
            fails.append(['kexinit-fields', 'lists %r -> %r' % (L, got)])
        # tool-side construction -> reference decoder
        from ssh_audit.ssh2_kexparty import SSH2_KexParty
        kx2 = SSH2_Kex(OutputBuffer(), case['cookie'].encode('latin-1'), L[0], L[1], SSH2_KexParty(L[2], L[4], L[6], L[8]), SSH2_KexParty(L[3], L[5], L[7], L[9]), case['follows'], case['reserved'])
        try:
            ref = wire.parse_kexinit(b'\x14' + kx2.payload)
            refl = [[x.decode('utf-8') for x in ref[f]] for f in wire.KEXINIT_FIELDS]
            # lang_s2c was built from L[9]
            if refl != L:
                fails.append(['kexinit-encode-vs-reference-decoder', '%r -> %r' % (L, refl)])
        except ValueError as e:
            fails.append(['kexinit-encode-rejected-by-reference-decoder', str(e)])
    elif k == 'pkm':
        from ssh_audit.ssh1_publickeymessage import SSH1_PublicKeyMessage
        body = wire.ssh1_pkm_payload(case['cmask'], case['amask'], case['sbits'], case['hbits'], case['pflags'], skey_n=int(case['sn']), hkey_n=int(case['hn']), skey_e=case['se'], hkey_e=case['he'])
        nt = int(case['hn']) >= 2 ** 31
        pkm = SSH1_PublicKeyMessage.parse(body)
        if pkm.payload != body:
            fails.append(['pkm-reencode', '%s -> %s' % (body.hex()[:120], pkm.payload.hex()[:120])])
        got = (pkm.server_key_bits, pkm.server_key_public_exponent, pkm.server_key_public_modulus, pkm.host_key_bits, pkm.host_key_public_exponent, pkm.host_key_public_modulus, pkm.protocol_flags, pkm.supported_ciphers_mask, pkm.supported_authentications_mask)
        exp = (case['sbits'], case['se'], int(case['sn']), case['hbits'], case['he'], int(case['hn']), case['pflags'], case['cmask'], case['amask'])
        if got != exp:
            fails.append(['pkm-fields', '%r != %r' % (got, exp)])
    elif k == 'frame':
        n = case['len']
        payload = bytes((case['fill'] + i) & 0xff for i in range(n))
        s, cap = _tool_socket()
        s.write(payload)
        s.send_packet()
        raw = cap.sent
        nt = (n % 8) != 3
        pl, problems = wire.check_packet_framing(raw)
        if problems:
            fails.append(['frame-rfc4253', 'payload length %d: %s' % (n, '; '.join(problems))])
        if pl != payload:
            fails.append(['frame-payload-altered', 'payload length %d' % n])
        if n >= 1:
            s2, _ = _tool_socket(raw)
            try:
                t, body = s2.read_packet(2)
                if t != payload[0] or body != payload[1:]:
                    fails.append(['frame-readback', 'payload length %d: type %r body-equal %r' % (n, t, body == payload[1:])])
                if s2.unread_len != 0:
                    fails.append(['frame-readback-leftover', 'payload length %d: %d unread' % (n, s2.unread_len)])
            except SystemExit:
                fails.append(['frame-readback-rejected', 'payload length %d' % n])
    elif k == 'frame_seq':
        # several packets back to back, delivered in segments: each must be read back unchanged
        lens, seg = case['lens'], case['seg']
        payloads = [bytes((31 + 7 * j + i) & 0xff for i in range(n)) for j, n in enumerate(lens)]
        s, cap = _tool_socket()
        for pl in payloads:
            s.write(pl)
            s.send_packet()
        stream = cap.sent
        raws, left = wire.split_packets(stream)
        nt = len(lens) > 1
        if left or [wire.check_packet_framing(r)[0] for r in raws] != payloads:
            fails.append(['frame-seq-reference-decoder', 'lens %r' % lens])
        s2, _ = _tool_socket(stream, seg)
        for j, pl in enumerate(payloads):
            try:
                t, body = s2.read_packet(2)
            except SystemExit:
                fails.append(['frame-seq-readback-rejected', 'lens %r seg %d: packet %d' % (lens, seg, j)])
                break
            if t != pl[0] or body != pl[1:]:
                fails.append(['frame-seq-readback', 'lens %r seg %d: packet %d read back as type %r, %d bytes' % (lens, seg, j, t, len(body) if isinstance(body, bytes) else -1)])
                break
    elif k == 'opseq':
        # a history of writes into one buffer, then the same history of reads: model = the list of values
        ops = case['ops']
        w = WriteBuf()
        ref = b''
        for t, v in ops:
            if t == 'byte':
                w.write_byte(v); ref += bytes([v])
            elif t == 'bool':
                w.write_bool(v); ref += b'\x01' if v else b'\x00'
            elif t == 'int':
                w.write_int(v); ref += struct.pack('>I', v)
            elif t == 'string':
                w.write_string(v.encode('latin-1')); ref += wire.sstr(v.encode('latin-1'))
            elif t == 'text':
                w.write_string(v); ref += wire.sstr(v.encode('utf-8'))
            elif t == 'list':
                w.write_list(v); ref += wire.namelist(v)
            elif t == 'mpint2':
                w.write_mpint2(int(v)); ref += wire.mpint(int(v))
            elif t == 'mpint1':
                w.write_mpint1(int(v)); ref += wire.mpint1(int(v))
            elif t == 'raw':
                w.write(v.encode('latin-1')); ref += v.encode('latin-1')
        enc = w.write_flush()
        nt = len(ops) >= 3
        if enc != ref:
            fails.append(['opseq-encode', 'ops %r: tool %s ref %s' % (ops[:6], enc.hex()[:80], ref.hex()[:80])])
        if w.write_flush() != b'':
            fails.append(['opseq-flush-not-empty', ''])
        r = ReadBuf(ref)
        for i, (t, v) in enumerate(ops):
            if t == 'byte':
                got, want = r.read_byte(), v
            elif t == 'bool':
                got, want = r.read_bool(), v
            elif t == 'int':
                got, want = r.read_int(), v
            elif t == 'string':
                got, want = r.read_string(), v.encode('latin-1')
            elif t == 'text':
                got, want = r.read_string(), v.encode('utf-8')
            elif t == 'list':
                got, want = r.read_list(), v
            elif t == 'mpint2':
                got, want = r.read_mpint2(), int(v)
            elif t == 'mpint1':
                got, want = r.read_mpint1(), int(v)
            else:
                got, want = r.read(len(v)), v.encode('latin-1')
            if got != want:
                fails.append(['opseq-decode:%s' % t, 'op %d of %r: %r != %r' % (i, [o[0] for o in ops], got if not isinstance(got, int) else str(got)[:60], want if not isinstance(want, int) else str(want)[:60])])
                break
        else:
            if r.unread_len != 0:
                fails.append(['opseq-leftover', '%d unread' % r.unread_len])
    elif k == 'crc_threads':
        # the process-wide first SSH-1 checksum computed by several threads at once
        import sys
        import threading
        from ssh_audit.ssh1 import SSH1
        data = case['data'].encode('latin-1')
        ref = wire.ssh1_crc(data)
        old = sys.getswitchinterval()
        bad = 0
        try:
            sys.setswitchinterval(1e-6)
            for rep in range(case['reps']):
                SSH1._crc32 = None
                try:
                    import ssh_audit.ssh1_crc32 as _m
                    for attr, val in list(vars(_m.SSH1_CRC32).items()):
                        if isinstance(val, list) and not attr.startswith('__'):
                            val.clear()          # a class-level table, if any, starts empty like in a fresh process
                except Exception:
                    pass
                res = []
                bar = threading.Barrier(case['threads'])

                def w():
                    bar.wait()
                    res.append(SSH1.crc32(data))
                ts = [threading.Thread(target=w) for _ in range(case['threads'])]
                [t.start() for t in ts]
                [t.join() for t in ts]
                bad += sum(1 for x in res if x != ref)
        finally:
            sys.setswitchinterval(old)
        nt = True
        if bad:
            fails.append(['ssh1-crc32-wrong-under-concurrent-first-use', '%d wrong checksums in %d x %d concurrent first uses' % (bad, case['reps'], case['threads'])])
    elif k == 'enc_threads':
        # several threads encode (and decode) values at once, each with its own buffer objects: no call may see another's data
        import sys
        import threading
        from ssh_audit.writebuf import WriteBuf
        from ssh_audit.readbuf import ReadBuf
        vals = [int(v) for v in case['values']]
        old = sys.getswitchinterval()
        bad = []
        try:
            sys.setswitchinterval(1e-6)
            bar = threading.Barrier(case['threads'])

            def w(i):
                bar.wait()
                for rep in range(case['reps']):
                    n = vals[(i + rep) % len(vals)]
                    e2 = WriteBuf().write_mpint2(n).write_flush()
                    e1 = WriteBuf().write_mpint1(abs(n)).write_flush()
                    el = WriteBuf().write_list(['n%d' % n, str(i)]).write_flush()
                    if e2 != wire.mpint(n) or e1 != wire.mpint1(abs(n)) or ReadBuf(e2).read_mpint2() != n or ReadBuf(e1).read_mpint1() != abs(n) or ReadBuf(el).read_list() != ['n%d' % n, str(i)]:
                        bad.append(n)
            ts = [threading.Thread(target=w, args=(i,)) for i in range(case['threads'])]
            [t.start() for t in ts]
            [t.join() for t in ts]
        finally:
            sys.setswitchinterval(old)
        nt = True
        if bad:
            fails.append(['encoding-wrong-under-concurrent-use', '%d wrong results in %d threads x %d rounds, e.g. value %d' % (len(bad), case['threads'], case['reps'], bad[0])])
    elif k == 'send_hist':
        # a history of packets on one socket object across connections, some sends failing (peer gone): every packet that
        # reaches a connection must be exactly the packet written for it - nothing left over from an earlier attempt
        import socket as _socket
        s2, cap = _tool_socket(b'')
        nt = True
        for i, (plen, outcome) in enumerate(case['ops']):
            payload = bytes([0x20 + i % 64]) + bytes((i * 7 + j) & 0xff for j in range(plen))
            if outcome == 'fail':
                class _Dead(_CapSock):
                    def send(self, d):
                        raise _socket.error(32, 'Broken pipe')
                cap = _Dead()
                s2._SSH_Socket__sock = cap
            elif outcome == 'reconnect':
                s2.close()
                cap = _CapSock()
                s2._SSH_Socket__sock = cap
            before = len(cap.sent)
            s2.write(payload)
            s2.send_packet()
            if not isinstance(cap, _CapSock) or type(cap) is _CapSock:
                raws, rest = wire.split_packets(cap.sent[before:])
                got = [wire.check_packet_framing(r)[0] for r in raws]
                if rest or got != [payload]:
                    fails.append(['packet-carries-leftovers-of-an-earlier-send', 'op %d of %r: sent %d bytes decoding to %d packet(s), first payloads %r, expected one packet %r' % (i, case['ops'], len(cap.sent) - before, len(got), [g[:8].hex() if g else None for g in got[:2]], payload[:8].hex())])
                    break
    elif k == 'frame_ref':
        # packets from the reference encoder (every legal padding) must be read back by the tool
        n, pad = case['len'], case['pad']
        payload = bytes((case['fill'] + i) & 0xff for i in range(n))
        base = -(n + 5) % 8
        padding = base + 8 * pad
        if padding < 4:
            padding += 8
        nt = pad > 0
        if padding <= 255:
            raw = wire.pkt(payload, pad=padding)
            s2, _ = _tool_socket(raw)
            try:
                t, body = s2.read_packet(2)
                if t != payload[0] or body != payload[1:] or s2.unread_len != 0:
                    fails.append(['frame-ref-readback', 'len %d pad %d' % (n, padding)])
            except SystemExit:
                fails.append(['frame-ref-readback-rejected', 'len %d pad %d' % (n, padding)])
    elif k == 'crc':
        from ssh_audit.ssh1 import SSH1
        data = case['data'].encode('latin-1')
        nt = len(data) > 4
        if SSH1.crc32(data) != wire.ssh1_crc(data):
            fails.append(['ssh1-crc32', 'data %s: %08x != %08x' % (data.hex()[:60], SSH1.crc32(data), wire.ssh1_crc(data))])
        body = data
        for pad in (None, 0, 0xff, len(data) & 0xff):
            raw = wire.ssh1_packet(2, body, pad=pad)
            s2, _ = _tool_socket(raw)
            try:
                t, b = s2.read_packet(1)
                if t != 2 or b != body:
                    fails.append(['ssh1-packet-readback', 'len %d padding %r' % (len(body), pad)])
            except SystemExit:
                fails.append(['ssh1-packet-correct-crc-rejected', 'len %d padding %r' % (len(body), pad)])
            for how in (True, 'no-padding'):
                bad = wire.ssh1_packet(2, body, bad_crc=how, pad=pad)
                if bad == raw:
                    continue            # (a checksum over type + body alone is the right one when the padding is all zero)
                s3, _ = _tool_socket(bad)
                try:
                    s3.read_packet(1)
                    fails.append(['ssh1-packet-bad-crc-accepted', 'len %d padding %r checksum %s' % (len(body), pad, 'with one bit flipped' if how is True else 'computed without the padding')])
                except SystemExit:
                    pass
    else:
        raise ValueError(k)
    return mkres(case, nt=nt, classes=classes, fails=fails)


# ------------------------------------------------------------------------ generators

NAME_ALPHABET = ''.join(chr(c) for c in range(33, 127) if chr(c) != ',')


def name_st():
    return st.one_of(st.text(alphabet=NAME_ALPHABET, min_size=1, max_size=24),
                     st.text(alphabet=st.characters(blacklist_characters=',', blacklist_categories=('Cs',)), min_size=1, max_size=8))


def list_st():
    return st.one_of(st.just(['']), st.lists(name_st(), min_size=1, max_size=6))


def strat_bigint():
    word = st.one_of(st.sampled_from(WORDS), st.integers(0, 0xffffffff))
    words = st.lists(word, min_size=1, max_size=8).map(lambda ws: int.from_bytes(b''.join(struct.pack('>I', w) for w in ws), 'big'))
    mag = st.one_of(words, st.integers(0, 2 ** 64), st.integers(0, 2 ** 4096), st.integers(0, 2 ** 8200))
    return st.tuples(mag, st.booleans()).map(lambda t: {'kind': 'mpint2', 'n': str(-t[0] if t[1] else t[0])})


def strat_mpint1():
    return st.one_of(st.integers(0, 2 ** 64), st.integers(0, 2 ** 4096)).map(lambda n: {'kind': 'mpint1', 'n': str(n)})


def strat_scalars():
    return st.fixed_dictionaries({'kind': st.just('scalars'), 'byte': st.integers(0, 255), 'bool': st.booleans(), 'u32': st.one_of(st.sampled_from(WORDS), st.integers(0, 0xffffffff)), 'str': st.binary(max_size=300).map(lambda b: b.decode('latin-1'))})


def strat_namelist():
    return list_st().map(lambda l: {'kind': 'namelist', 'names': l})


def strat_kexinit():
    return st.fixed_dictionaries({'kind': st.just('kexinit'), 'lists': st.lists(list_st(), min_size=10, max_size=10), 'cookie': st.binary(min_size=16, max_size=16).map(lambda b: b.decode('latin-1')), 'follows': st.booleans(), 'reserved': st.one_of(st.just(0), st.integers(0, 0xffffffff))})


def strat_pkm():
    def mod(bits):
        return st.integers(0, 2 ** bits)
    return st.fixed_dictionaries({'kind': st.just('pkm'), 'cmask': st.integers(0, 0xffffffff), 'amask': st.integers(0, 0xffffffff), 'sbits': st.integers(0, 0xffffffff), 'hbits': st.integers(0, 0xffffffff), 'pflags': st.integers(0, 0xffffffff),
                                  'sn': mod(1024).map(str), 'hn': st.one_of(mod(64), mod(2048)).map(str), 'se': st.integers(0, 2 ** 33), 'he': st.integers(0, 2 ** 33)})


def strat_opseq():
    big = st.one_of(st.integers(-2 ** 70, 2 ** 70), st.integers(-2 ** 600, 2 ** 600)).map(str)
    op = st.one_of(
        st.tuples(st.just('byte'), st.integers(0, 255)), st.tuples(st.just('bool'), st.booleans()), st.tuples(st.just('int'), st.one_of(st.sampled_from(WORDS), st.integers(0, 0xffffffff))),
        st.tuples(st.just('string'), st.binary(max_size=40).map(lambda b: b.decode('latin-1'))), st.tuples(st.just('text'), st.text(max_size=12, alphabet=st.characters(blacklist_categories=('Cs',)))),
        st.tuples(st.just('list'), list_st()), st.tuples(st.just('mpint2'), big), st.tuples(st.just('mpint1'), st.integers(0, 2 ** 300).map(str)), st.tuples(st.just('raw'), st.binary(max_size=9).map(lambda b: b.decode('latin-1'))))
    return st.lists(op.map(list), min_size=1, max_size=12).map(lambda ops: {'kind': 'opseq', 'ops': ops})


def strat_crc():
    return st.binary(max_size=200).map(lambda b: {'kind': 'crc', 'data': b.decode('latin-1')})


def run(ctx):
    q = ctx.quick
    # dense window and the neighbourhoods of +-2^k (enumerated)
    win = 20000 if q else 70000
    cases = [{'kind': 'mpint2', 'n': str(n)} for n in range(-win, win + 1)]
    ks = range(0, 8193, 8 if q else 1)
    for k in ks:
        for d in (-2, -1, 0, 1, 2):
            for sgn in (1, -1):
                cases.append({'kind': 'mpint2', 'n': str(sgn * (2 ** k) + d)})
    import itertools
    for nw in (1, 2, 3):
        for ws in itertools.product(WORDS, repeat=nw):
            v = int.from_bytes(b''.join(struct.pack('>I', w) for w in ws), 'big')
            cases.append({'kind': 'mpint2', 'n': str(v)})
            cases.append({'kind': 'mpint2', 'n': str(-v)})
    for k in range(0, 4097, 16 if q else 1):
        for d in (-1, 0, 1):
            if 2 ** k + d >= 0:
                cases.append({'kind': 'mpint1', 'n': str(2 ** k + d)})
    cases += [{'kind': 'frame', 'len': n, 'fill': n * 7} for n in range(0, 4097)]
    for seg in (0, 1, 2, 5, 7, 8, 13, 64, 2048):
        for a in list(range(1, 70)) + [2036, 2040, 2041, 2043, 2047, 2048, 4088, 4091]:
            cases.append({'kind': 'frame_seq', 'lens': [a, (a * 7) % 61 + 1, 5], 'seg': seg})
    # long-lived connections: far more than 64 KiB through one reader, packets back to back
    for seg in (0, 1500, 2048, 4096, 65536):
        cases.append({'kind': 'frame_seq', 'lens': [3000 + 13 * i for i in range(30)] + [5, 4000, 17], 'seg': seg})
        cases.append({'kind': 'frame_seq', 'lens': [900] * 90 + [1, 2, 3], 'seg': seg})
    cases += [{'kind': 'crc_threads', 'data': 'The quick brown fox' * (i + 1), 'threads': 4 + i % 5, 'reps': 12} for i in range(6 if q else 40)]
    # values of the same length in words (what a shared scratch buffer would be keyed by), and of mixed lengths
    cases += [{'kind': 'enc_threads', 'values': [str((0x1234567 + 0x01010101 * j) << (32 * w) | (j + 1)) for j in range(8)] + ([str(-((7 + j) << (32 * w))) for j in range(4)] if i % 2 else []), 'threads': 4 + i % 5, 'reps': 1500 if q else 4000} for i, w in enumerate((1, 2, 4, 8, 16, 32, 64, 3) if q else tuple(range(1, 40)))]
    import itertools as _it
    for n in (2, 3, 4):
        for combo in _it.product(('ok', 'fail', 'reconnect'), repeat=n):
            if 'fail' in combo:
                cases.append({'kind': 'send_hist', 'ops': [[5 + 11 * j, o] for j, o in enumerate(combo)] + [[3, 'reconnect'], [40, 'ok']]})
    cases += [{'kind': 'frame_ref', 'len': n, 'pad': p, 'fill': n} for n in range(1, 300 if q else 1200) for p in range(0, 4)]
    cases += [{'kind': 'frame_ref', 'len': n, 'pad': p, 'fill': n} for n in (1, 2, 3, 4, 5, 6, 7, 8, 19, 188, 1000) for p in range(0, 32)]     # every legal padding length 4..255
    # name-lists far longer than any server sends (every boundary of a table or counter an implementation might keep)
    for n in (255, 256, 257, 1023, 1024, 1025, 4095, 4096, 4097, 4098, 4099, 8191, 8193, 16385, 32769, 65535, 65536, 65537) + (() if q else (131073, 262145)):
        cases.append({'kind': 'namelist', 'names': ['n%x' % i for i in range(n)]})
        cases.append({'kind': 'namelist', 'names': ['a'] * n})
        cases.append({'kind': 'kexinit_long', 'n': n, 'field': n % 10})
    for i in range(40 if q else 400):
        cases.append({'kind': 'histories', 'names': ['alg-%d-%d@example.com' % (i, j) for j in range(1 + i % 5)], 'extra': 'late-addition-%d' % i})
    from ssh_audit.dheat import DHEat
    for alg in sorted(set(list(DHEat.alg_priority) + list(DHEat.gex_algs))):
        for elen in (0, 1, 4, 62, 63, 126, 254, 510, 1022):
            cases.append({'kind': 'dheat_packets', 'alg': alg, 'elen': elen, 'msb': 1 + (elen * 7) % 254, 'bits': [2048, 3072, 4096, 8192][elen % 4]})
    ctx.map(cases, chunk=2000)
    f = 1 if q else 15
    ctx.hyp('strat_bigint', 20000 * f, label=1)
    ctx.hyp('strat_mpint1', 4000 * f, label=2)
    ctx.hyp('strat_scalars', 4000 * f, label=3)
    ctx.hyp('strat_namelist', 4000 * f, label=4)
    ctx.hyp('strat_kexinit', 3000 * f, label=5)
    ctx.hyp('strat_pkm', 3000 * f, label=6)
    ctx.hyp('strat_crc', 3000 * f, label=7)
    ctx.hyp('strat_opseq', 6000 * f, label=8)
    if not q:
        from vlib import fuzzrun
        fuzzrun.run_into(ctx, 'c10_roundtrip', runs=400000, shards=8)
    return ctx.finish('exploration', 'integers: dense window around 0, +-2^k+d for k<=8192, all 1-3 word patterns from a boundary set, Hypothesis big integers of both signs; framing: every payload length 0..4096 plus reference-encoded packets with every legal padding; Hypothesis name-lists, KEXINIT and SSH-1 public-key messages; distinct = distinct value; non-trivial = |n|>=2^31 or a 32-bit word with the top bit set, payload length not = 3 (mod 8), multi-name lists, non-default KEXINIT flags',
                      assumptions=['vlib/wire.py is a correct RFC 4251/4253 codec (it is independent of the code under test and cross-checked against Python int.to_bytes)'])

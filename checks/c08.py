"""C08 — one bad target never costs the others their results.

Target lists mixing healthy archetypes with every failure archetype, the bad target in every
position, 1..n threads, text and JSON, harness-owned schedules.  Oracle: one block per target, block
i equal to the fresh single-target block of the i-th target to finish, exit status = highest-ranked
single-target status, JSON output = one array with one element per target.
"""
import itertools
import json
import os

from hypothesis import strategies as st

from vlib import fakenet, drive, report, sched, wire
from vlib.runner import mkres
from checks import c07

ID = 'C08'
HK = {'ssh-ed25519': {'t': 'ed25519'}}
KX = wire.kexinit([b'curve25519-sha256'], [b'ssh-ed25519'], [b'aes128-ctr'], [b'hmac-sha2-256'])
HEALTHY = {
    'good':   {'kex': ['sntrup761x25519-sha512@openssh.com'], 'key': ['ssh-ed25519'], 'enc': ['aes256-gcm@openssh.com'], 'mac': ['hmac-sha2-256-etm@openssh.com'], 'hostkeys': HK},
    'warn':   {'kex': ['curve25519-sha256'], 'key': ['ssh-ed25519'], 'enc': ['aes128-ctr'], 'mac': ['hmac-sha2-256'], 'hostkeys': HK},
    'fail':   {'kex': ['diffie-hellman-group1-sha1', 'curve25519-sha256'], 'key': ['ssh-dss', 'ssh-ed25519'], 'enc': ['3des-cbc'], 'mac': ['hmac-md5'], 'hostkeys': HK},
    # a server whose (legal) KEXINIT makes a report of more than a megabyte
    'huge':   {'kex': ['curve25519-sha256'] + ['k%04d-' % i + 'x' * 900 + '@example.com' for i in range(1200)], 'key': ['ssh-ed25519'], 'enc': ['aes128-ctr'], 'mac': ['hmac-sha2-256'], 'hostkeys': HK},
    'gex':    {'kex': ['curve25519-sha256', 'diffie-hellman-group-exchange-sha256'], 'key': ['rsa-sha2-512', 'ssh-ed25519'], 'hostkeys': dict({k: {'t': 'rsa', 'bits': 2048} for k in ('ssh-rsa', 'rsa-sha2-256', 'rsa-sha2-512')}, **HK), 'moduli': [2048, 4096], 'gex_style': 'roundup'},
}
BAD = {
    'unresolvable': 'unresolvable',
    'spaced-name': 'unresolvable',        # a line with blanks inside is one (unusable) target, not two
    'bad-label': 'unresolvable',          # an empty label: the resolver itself raises (UnicodeError from the idna codec), which ends that scan as an internal error
    'bad-label-idn': 'unresolvable',      # the same with a non-ASCII label next to the empty one
    'refused': 'refused',
    'timeout': 'timeout',
    'silent': {'faults': [['connect', '*', 'stall']]},
    'early-close': {'faults': [['connect', '*', 'close']]},
    'close-after-banner': {'faults': [['kexinit', '*', 'close']]},
    'garbage-banner': {'faults': [['banner', '*', ['raw', 'HTTP/1.0 400 Bad Request\r\n\r\n', 'close']]]},
    'bad-block-size': {'faults': [['kexinit', 0, ['set_len', 0x1235]]]},
    'bad-padding': {'faults': [['kexinit', 0, ['set_pad', 3]]]},
    'truncated-kexinit': {'faults': [['kexinit', 0, ['reframe_trunc', 40]]]},
    'wrong-first-packet': {'faults': [['kexinit', 0, ['type', 21]]]},
    'probe-garbage': {'hostkeys': HK, 'faults': [['kexdh_reply', '*', ['payload', '\x1f\x00\x00\x00\x05ab']]]},
    'probe-close': {'hostkeys': HK, 'faults': [['kexinit', 1, 'close']]},
    'probe-bad-block': {'hostkeys': HK, 'faults': [['kexdh_reply', '*', ['set_len', 0x1235]]]},
    'probe-refused': {'hostkeys': HK, 'faults': [['connect', 1, 'refuse'], ['connect', 2, 'refuse']]},
    'probe-timeout': {'hostkeys': HK, 'faults': [['connect', 1, 'timeout']]},
    'probe-reset': {'hostkeys': HK, 'faults': [['kexinit', 1, 'reset']]},
    'reset-after-banner': {'faults': [['kexinit', 0, 'reset']]},
    'ssh1-bad-crc': {'proto': 1, 'bad_crc': True},
    'ssh1-truncated': {'proto': 1, 'faults': [['pkm', '*', ['trunc', 30, 'close']]]},
}
RANK = [0, 2, 3, 1, 255]
HOST_FORM = {'spaced-name': 'back up%d.invalid', 'bad-label': 't%d..example.invalid', 'bad-label-idn': 'b\u00fccher%d..example.invalid'}


def host_for(i, kind):
    return HOST_FORM.get(kind, 't%d') % i
MODES = {'text': ['-n'], 'json': ['-n', '-j'], 'batch': ['-n', '-b'], 'json-v': ['-n', '-j', '-v'], 'json-indent': ['-n', '-jj'], 'json-indent-v': ['-v', '-jj']}
_solo = {}


def split_line(line):
    """target as written in the file -> (host, port)"""
    if line.startswith('['):
        h, _, rest = line[1:].partition(']')
        return h, int(rest[1:]) if rest.startswith(':') else 22
    if line.count(':') == 1:
        h, _, p = line.partition(':')
        return h, int(p)
    return line, 22


def add(net, line, kind):
    host, port = split_line(line)
    v6 = ':' in host
    # one address per host name (a name listed again on another port resolves to the same address)
    ips = net.resolve.get(host) or ([(10, host)] if v6 else [(2, '10.8.%d.%d' % (len(net.resolve) // 200, 1 + len(net.resolve) % 200))])
    ip = ips[0][1]
    if kind in HEALTHY:
        net.add(host, port, fakenet.Server(dict(HEALTHY[kind], banner='SSH-2.0-OpenSSH_9.3')), ips=ips)
        return
    b = BAD[kind]
    if b == 'unresolvable':
        return
    if b == 'refused':
        if not v6:
            net.resolve[host] = ips
    elif b == 'timeout':
        if not v6:
            net.resolve[host] = ips
        net.servers[(ip, port)] = 'timeout'
    else:
        net.add(host, port, fakenet.peer_from_spec(dict(b)), ips=ips)


def run_list(kinds, mode, threads, choices, gate=True, hosts=None):
    net = fakenet.FakeNet()
    hosts = hosts or [host_for(i, k) for i, k in enumerate(kinds)]
    done = set()
    for h, k in zip(hosts, kinds):
        if h not in done:
            add(net, h, k)
            done.add(h)
    lines = list(hosts)
    tf = drive.tmpfile('\n'.join(lines) + '\n')
    argv = MODES[mode] + ['--skip-rate-test', '-t', '2', '--threads', str(threads), '-T', tf]
    try:
        if choices is None:
            r, sch = drive.run_cli(argv, net), None
        else:
            r, sch = sched.run_scheduled(argv, net, len(kinds), threads, choices, gate)
    finally:
        os.unlink(tf)
    return r, sch


def split(out, mode):
    if mode.startswith('json'):
        try:
            arr = json.loads(out)
        except ValueError:
            return None
        return arr if isinstance(arr, list) else None
    blocks = report.split_blocks(out)
    return [b.strip('\n') for b in blocks]


def solo(host, kind, mode):
    k = (host, kind, mode)
    if k not in _solo:
        net = fakenet.FakeNet()
        add(net, host, kind)
        tf = drive.tmpfile(host + '\n')
        try:
            r = drive.run_cli(MODES[mode] + ['--skip-rate-test', '-t', '2', '--threads', '1', '-T', tf], net)
        finally:
            os.unlink(tf)
        _solo[k] = (r.code, split(r.out, mode), r.exc, r.out)
    return _solo[k]


REAL_OK = [k for k, v in BAD.items() if isinstance(v, dict) and all(f[1] == '*' and f[2] not in ('refuse', 'timeout', 'stall') for f in v.get('faults', []))] + ['refused']     # same server serves the single-target run and the list run: only index-independent scripts


def eval_real(case):
    """Engine B: the real process with free-running worker threads against real sockets."""
    kinds, mode, threads = list(case['kinds']), case['mode'], case['threads']
    specs = []
    for k in kinds:
        if k in HEALTHY:
            specs.append(dict(HEALTHY[k], banner='SSH-2.0-OpenSSH_9.3'))
        elif k == 'refused':
            specs.append(None)
        else:
            specs.append(dict(BAD[k]))
    peers = [fakenet.peer_from_spec(sp) for sp in specs if sp is not None]
    fails = []
    with drive.RealServers(peers) as rs:
        ports = iter(rs.ports)
        targets = ['127.0.0.1:%d' % (next(ports) if sp is not None else 1) for sp in specs]

        def run(tl, k):
            tf = drive.tmpfile('\n'.join(tl) + '\n')
            try:
                return drive.run_subprocess(MODES[mode] + ['--skip-rate-test', '-t', '2', '--threads', str(k), '-T', tf])
            finally:
                os.unlink(tf)
        solos = [run([t], 1) for t in targets]
        r = run(targets, threads)
    n = len(kinds)
    want_code = max((s.code for s in solos), key=lambda c: RANK.index(c) if c in RANK else len(RANK))
    if r.code != want_code:
        fails.append(['real-process-exit-status-not-highest-ranked', 'kinds %r: exit %d, single-target statuses %r' % (kinds, r.code, [s.code for s in solos])])
    got = split(r.out, mode)
    if got is None or len(got) != n:
        fails.append(['real-process-number-of-result-blocks', 'kinds %r mode %s threads %d: %r blocks for %d targets; head %r' % (kinds, mode, threads, None if got is None else len(got), n, r.out[:200])])
    else:
        OOB = ('[exception] invalid ssh packet (block size)', '[exception] packet checksum CRC32 mismatch.')
        def canon(b):
            if mode.startswith('json'):
                if isinstance(b, dict) and 'error' in b:
                    b = dict(b, error='\n'.join(l for l in b['error'].split('\n') if l not in OOB))
                return json.dumps(b, sort_keys=True)
            return '\n'.join(l for l in b.split('\n') if l not in OOB).strip('\n')
        want = sorted(canon((split(s.out, mode) or [None])[0]) for s in solos)
        have = sorted(canon(b) for b in got)
        if want != have:
            fails.append(['real-process-blocks-differ-from-single-target-runs', 'kinds %r mode %s threads %d' % (kinds, mode, threads)])
    return mkres(case, nt=True, classes=['engine-B', 'mode:' + mode, 'threads:%d' % threads], fails=fails)


def eval_slow(case):
    """Engine B, wall clock: many silent targets queued behind few threads.  Every target must still get its block."""
    n = case['silent']
    # (the healthy server is the last one listed: it is scanned after everybody else has been waited for)
    specs = [{'faults': [['connect', '*', 'stall']]} for _ in range(n)] + [dict(HEALTHY['good'], banner='SSH-2.0-OpenSSH_9.3')]
    peers = [fakenet.peer_from_spec(sp) for sp in specs]
    fails = []
    with drive.RealServers(peers) as rs:
        tf = drive.tmpfile('\n'.join('127.0.0.1:%d' % p for p in rs.ports) + '\n')
        try:
            r = drive.run_subprocess(MODES[case['mode']] + ['--skip-rate-test', '-t', '1', '--threads', str(case['threads']), '-T', tf], timeout=300)
        finally:
            os.unlink(tf)
    got = split(r.out, case['mode'])
    if r.code != 1:
        fails.append(['slow-list-exit-status-%d' % r.code, 'silent %d threads %d: tail %r' % (n, case['threads'], r.out[-200:])])
    if got is None or len(got) != n + 1:
        fails.append(['slow-list-number-of-result-blocks', 'silent %d threads %d mode %s: %r blocks for %d targets' % (n, case['threads'], case['mode'], None if got is None else len(got), n + 1)])
    else:
        reports = [b for b in got if (isinstance(b, dict) and 'kex' in b) or (isinstance(b, str) and report.TextReport(b).has_algorithm_report())]
        if len(reports) != 1:
            fails.append(['healthy-target-behind-slow-ones-lost-its-report', 'silent %d threads %d mode %s: %d reports among the blocks; tail %r' % (n, case['threads'], case['mode'], len(reports), r.out[-300:])])
    return mkres(case, nt=True, classes=['engine-B', 'wall-clock', 'threads:%d' % case['threads']], fails=fails)


def eval_case(case):
    if case.get('kind') == 'slow':
        return eval_slow(case)
    if case.get('kind') == 'real':
        return eval_real(case)
    kinds, mode, threads = list(case['kinds']), case['mode'], case['threads']
    hosts = [host_for(i, k) for i, k in enumerate(kinds)]
    forms = case.get('forms') or []
    for i, f in enumerate(forms[:len(hosts)]):
        # how the target is written in the file: with a port of its own, as a bracketed IPv6 address, or as one more port of the first host
        if kinds[i] in HOST_FORM or f is None:
            continue
        if f[0] == 'port':
            hosts[i] = '%s:%d' % (hosts[i], f[1])
        elif f[0] == 'v6':
            hosts[i] = '[2001:db8:8::%x]:%d' % (i + 1, f[1])
        elif f[0] == 'samehost' and i > 0 and kinds[0] not in HOST_FORM and BAD.get(kinds[0]) != 'unresolvable' and BAD.get(kinds[i]) != 'unresolvable':
            hosts[i] = '%s:%d' % (split_line(hosts[0])[0], f[1] + i)
    for d in case.get('dups', []):          # the same target listed again (same host, hence same kind)
        d = d % len(hosts)
        spec = BAD.get(kinds[d])
        if isinstance(spec, dict) and any(f[1] != '*' for f in spec.get('faults', [])):
            continue                        # scripted by connection index: two scans of that server would share the script
        hosts.append(hosts[d])
        kinds.append(kinds[d])
    n = len(kinds)
    fails = []
    r, sch = run_list(kinds, mode, threads, case.get('choices'), case.get('gate', True), hosts=hosts)
    if r.hang and str(r.hang).startswith('wall-clock watchdog'):
        # the program itself never came back (its threads are not waiting for the scheduler or for the network, which
        # would have been reported as such): no target of the list got its result
        return mkres(case, nt=True, classes=['list', 'never-finished'], fails=[['run-with-one-bad-target-never-finishes', 'targets %r mode %s threads %d: %s' % (kinds, mode, threads, r.hang)]])
    if r.hang or (sch is not None and sch.broken):
        raise RuntimeError('scheduler made no progress: %r' % (r.hang or sch.trace[-5:]))
    healthy = [k for k in kinds if k in HEALTHY]
    bad = [k for k in kinds if k in BAD]
    nt = bool(healthy) and bool(bad)
    cl = ['mode:' + mode, 'threads:%d' % threads, 'n:%d' % n] + ['bad:' + b for b in sorted(set(bad))] + sorted({'form:' + f[0] for f in forms if f})
    tag = '+'.join(sorted(set(bad))) or 'none'
    solos = [solo(h, k, mode) for h, k in zip(hosts, kinds)]
    if r.exc:
        fails.append(['run-aborted:%s' % drive.crash_sig(r), 'kinds %r mode %s threads %d: %s' % (kinds, mode, threads, r.brief())])
        return mkres(case, nt=nt, classes=cl, fails=fails)
    # exit status = highest-ranked single-target status
    want_code = max((s[0] for s in solos), key=lambda c: RANK.index(c) if c in RANK else len(RANK))
    if r.code != want_code:
        fails.append(['exit-status-not-highest-ranked', 'kinds %r mode %s: exit %d, single-target statuses %r' % (kinds, mode, r.code, [s[0] for s in solos])])
    got = split(r.out, mode)
    if got is None:
        oob = [k for k in bad if k in ('bad-block-size', 'bad-padding', 'probe-bad-block', 'ssh1-bad-crc')]
        sig = 'json-stdout-not-one-array'
        if oob and '[exception] ' in r.out and ('invalid ssh packet' in r.out or 'CRC32' in r.out):
            sig = 'packet-error-message-printed-out-of-band-json'
        fails.append([sig, 'kinds %r threads %d: %r' % (kinds, threads, r.out[:300])])
        return mkres(case, nt=nt, classes=cl, fails=fails)
    if len(got) != n:
        fails.append(['number-of-result-blocks', 'kinds %r mode %s threads %d: %d blocks for %d targets' % (kinds, mode, threads, len(got), n)])
        return mkres(case, nt=nt, classes=cl, fails=fails)
    # every block must be the fresh single-target block of exactly one listed target (multiset comparison:
    # blocks are printed in completion order, which the statement leaves open)
    def solo_block(i):
        s = solos[i][1]
        return s[0] if s and len(s) == 1 else None
    OOB = ('[exception] invalid ssh packet (block size)', '[exception] packet checksum CRC32 mismatch.')

    def canon(b, strip_oob=False):
        if mode.startswith('json'):
            if strip_oob and isinstance(b, dict) and 'error' in b:
                b = dict(b, error='\n'.join(l for l in b['error'].split('\n') if l not in OOB))
            return json.dumps(b, sort_keys=True)
        if strip_oob:
            b = '\n'.join(l for l in b.split('\n') if l not in OOB).strip('\n')
        return b
    want = sorted(canon(solo_block(i)) for i in range(n))
    have = sorted(canon(b) for b in got)
    if want != have:
        w2 = sorted(canon(solo_block(i), True) for i in range(n))
        h2 = sorted(canon(b, True) for b in got)
        packet_err = [k for k in bad if k in ('bad-block-size', 'bad-padding', 'probe-bad-block', 'ssh1-bad-crc')]
        if w2 == h2 and packet_err:
            fails.append(['packet-error-message-printed-out-of-band-%s' % ('json' if mode.startswith('json') else 'text'), 'kinds %r mode %s threads %d' % (kinds, mode, threads)])
        else:
            extra = [b for b in have if b not in want][:1]
            missing = [b for b in want if b not in have][:1]
            kinds_missing = sorted({kinds[i] for i in range(n) if canon(solo_block(i)) in missing})
            fails.append(['blocks-differ-from-single-target-runs:%s' % ('+'.join('healthy' if k in HEALTHY else k for k in kinds_missing) or 'extra'), 'kinds %r mode %s threads %d choices %r: unexpected block %r; missing block %r' % (kinds, mode, threads, case.get('choices'), [e[:300] for e in extra], [m[:300] for m in missing])])
    return mkres(case, nt=nt, classes=cl, fails=fails[:4])


def valid_case(case):
    return len(case['kinds']) >= 2


NO_SHRINK_KEYS = ('choices',)
HEALTHY4 = sorted(k for k in HEALTHY if k != 'huge')
ALLK = HEALTHY4 + sorted(BAD)      # ('huge' only in the explicit cases below: it costs a second per run)


def strat_list():
    def build(t):
        kinds, mode, threads, choices, gate, forms = t
        if not any(k in BAD for k in kinds):
            kinds = kinds + ['refused']
        if not any(k in HEALTHY for k in kinds):
            kinds = ['good'] + kinds
        c = {'kinds': kinds, 'mode': mode, 'threads': min(threads, len(kinds)), 'choices': choices, 'gate': gate, 'dups': [choices[0]] if len(choices) % 4 == 0 else []}
        if any(f is not None for f in forms):
            c['forms'] = forms
            c['dups'] = []
        return c
    form = st.one_of(st.none(), st.none(), st.tuples(st.just('port'), st.sampled_from([2222, 65535, 1, 22, 8022])).map(list), st.tuples(st.just('v6'), st.sampled_from([22, 2222, 65535])).map(list), st.tuples(st.just('samehost'), st.sampled_from([2200, 3300])).map(list))
    return st.tuples(st.lists(st.sampled_from(ALLK), min_size=2, max_size=5), st.sampled_from(['text', 'json', 'text', 'json', 'batch']), st.integers(1, 5), st.lists(st.integers(0, 4), min_size=1, max_size=40), st.booleans(),
                     st.one_of(st.just([None] * 6), st.lists(form, min_size=6, max_size=6))).map(build)


def run(ctx):
    rng = ctx.rng
    cases = []
    # every failure archetype in every position of lists of length 2 and 3 (exhaustive), text and JSON
    for b in sorted(BAD):
        for n in (2, 3):
            for pos in range(n):
                hs = [HEALTHY4[(pos + j + len(b)) % len(HEALTHY4)] for j in range(n)]
                hs[pos] = b
                for mode in ('text', 'json'):
                    for threads in ((1, n) if not ctx.quick else (rng.choice([1, n]),)):
                        cases.append({'kinds': hs, 'mode': mode, 'threads': threads, 'choices': [rng.randint(0, 2) for _ in range(20)]})
    # two bad targets
    for b1, b2 in (list(itertools.permutations(sorted(BAD), 2)) if not ctx.quick else rng.sample(list(itertools.permutations(sorted(BAD), 2)), 60)):
        cases.append({'kinds': [b1, 'warn', b2], 'mode': rng.choice(['text', 'json']), 'threads': rng.choice([1, 2, 3]), 'choices': [rng.randint(0, 2) for _ in range(20)]})
    # the JSON array must stay one array under -v and -jj as well
    for b in sorted(BAD):
        for mode in ('json-v', 'json-indent', 'json-indent-v'):
            if not ctx.quick or rng.random() < 0.5:
                cases.append({'kinds': ['warn', b, 'good'], 'mode': mode, 'threads': rng.choice([1, 3]), 'choices': [rng.randint(0, 2) for _ in range(20)]})
    for mode in ('json', 'json-indent', 'text'):
        for threads in (1, 3):
            cases.append({'kinds': ['good', 'huge', 'refused', 'warn'], 'mode': mode, 'threads': threads, 'choices': [rng.randint(0, 2) for _ in range(20)]})
    # long target lists (the collector loop works through them in any way it likes; the output contract is the same)
    for n, threads, mode in ((257, 1, 'json'), (300, 32, 'json'), (300, 8, 'text'), (513, 16, 'json'), (64, 64, 'json-indent'), (1025, 32, 'json')) if not ctx.quick else ((257, 4, 'json'), (300, 32, 'text'), (520, 16, 'json')):
        kinds = ['refused'] * n
        for j, k in enumerate(('good', 'unresolvable', 'warn', 'early-close', 'fail')):
            kinds[(j * 97 + 13) % n] = k
        kinds[n - 1] = 'good' if n % 2 else 'refused'
        cases.append({'kinds': kinds, 'mode': mode, 'threads': threads, 'choices': None})
    # ... and lists of healthy targets only, the one with the worst findings listed first (the status of the run is its status)
    for n, threads, mode in ((1030, 16, 'json'),) if ctx.quick else ((1030, 16, 'json'), (1100, 3, 'text'), (2049, 32, 'json'), (1025, 1, 'text')):
        cases.append({'kinds': ['fail'] + ['good'] * (n - 1), 'mode': mode, 'threads': threads, 'choices': None})
        if not ctx.quick:
            cases.append({'kinds': ['good'] * 3 + ['warn'] + ['good'] * (n - 4), 'mode': mode, 'threads': threads, 'choices': None})
    ctx.map(cases)
    ctx.hyp('strat_list', 3000 if ctx.quick else 40000, label=1, shards=16)
    free = [{'kinds': [rng.choice(ALLK) for _ in range(rng.randint(2, 5))] + ['good', 'refused'], 'mode': rng.choice(['text', 'json']), 'threads': rng.choice([2, 3, 5]), 'choices': None} for _ in range(40 if ctx.quick else 600)]
    ctx.map(free)
    real = []
    for _ in range(8 if ctx.quick else 120):
        b = [x for x in REAL_OK if x not in ('bad-block-size', 'bad-padding', 'probe-bad-block', 'ssh1-bad-crc')]
        real.append({'kind': 'real', 'kinds': [rng.choice(HEALTHY4), rng.choice(b), rng.choice(HEALTHY4), rng.choice(b)], 'mode': rng.choice(['text', 'json']), 'threads': rng.choice([1, 2, 4])})
    slow = [{'kind': 'slow', 'silent': 8, 'threads': 1, 'mode': 'json'}, {'kind': 'slow', 'silent': 26, 'threads': 1, 'mode': 'text'}]      # (the second one waits through more than twenty timeouts) + ([] if ctx.quick else [{'kind': 'slow', 'silent': 8, 'threads': 1, 'mode': 'text'}, {'kind': 'slow', 'silent': 12, 'threads': 2, 'mode': 'json'}, {'kind': 'slow', 'silent': 20, 'threads': 3, 'mode': 'text'}])
    ctx.map(real + slow, chunk=1)
    ctx.note(traces_validated_against_impl=len(real) + len(slow))
    ctx.note(failure_archetypes=sorted(BAD), healthy_archetypes=sorted(HEALTHY))
    return ctx.finish('fault_enumeration', 'target lists of length 2-5 mixing 4 healthy archetypes with 16 failure archetypes (unresolvable, refused, connect timeout, silent, early close, close after banner, garbage banner, bad block size, bad padding, truncated KEXINIT, wrong first packet, probe-phase garbage / close / bad block, SSH-1 bad CRC / truncation): every failure archetype in every position of lists of length 2 and 3 (exhaustive), pairs of failures, Hypothesis lists, 1..n threads, text / batch / JSON (also with -v and -jj), lists of 257-1025 targets, harness-owned schedules plus free-running runs; non-trivial = at least one healthy and one failing target',
                      assumptions=['block i is attributed to the i-th target to finish (known from the scheduler trace); blocks are compared with fresh single-target -T runs', 'an out-of-range port in the targets file is not a failure archetype of the statement (C18 covers it)'])

"""C07 — each target's result is independent of the other targets in the run.

Histories of target archetypes (one per channel through which a scan edits shared rating state) are
run in one invocation with 1..n worker threads under harness-owned schedules (assignment of targets
to worker threads and interleaving of connection events); each target's block must be byte-identical
to the block of a fresh run with that target alone.
"""
import itertools
import json
import os

from hypothesis import strategies as st

from vlib import fakenet, drive, report, sched
from vlib.runner import mkres

ID = 'C07'
HK_ED = {'ssh-ed25519': {'t': 'ed25519'}}


def rsa_hk(bits):
    return {k: {'t': 'rsa', 'bits': bits} for k in ('ssh-rsa', 'rsa-sha2-256', 'rsa-sha2-512')}


ARCH = {
    'clean':      {'kex': ['sntrup761x25519-sha512@openssh.com', 'curve25519-sha256'], 'key': ['ssh-ed25519'], 'enc': ['aes256-gcm@openssh.com', 'aes128-ctr'], 'mac': ['hmac-sha2-256-etm@openssh.com'], 'hostkeys': HK_ED},
    'terrapin':   {'kex': ['curve25519-sha256'], 'key': ['ssh-ed25519'], 'enc': ['chacha20-poly1305@openssh.com', 'aes128-cbc', 'aes128-ctr'], 'mac': ['hmac-sha2-256-etm@openssh.com', 'hmac-sha2-256'], 'hostkeys': HK_ED},
    'strict':     {'kex': ['curve25519-sha256', 'kex-strict-s-v00@openssh.com'], 'key': ['ssh-ed25519'], 'enc': ['chacha20-poly1305@openssh.com', 'aes128-cbc', 'aes128-ctr'], 'mac': ['hmac-sha2-256-etm@openssh.com', 'hmac-sha2-256'], 'hostkeys': HK_ED},
    'rsa1024':    {'kex': ['curve25519-sha256'], 'key': ['rsa-sha2-512', 'ssh-rsa', 'ssh-ed25519'], 'hostkeys': dict(rsa_hk(1024), **HK_ED)},
    'rsa2048':    {'kex': ['curve25519-sha256'], 'key': ['rsa-sha2-512', 'rsa-sha2-256', 'ssh-ed25519'], 'hostkeys': dict(rsa_hk(2048), **HK_ED)},
    'rsa4096':    {'kex': ['curve25519-sha256'], 'key': ['rsa-sha2-512', 'rsa-sha2-256', 'ssh-rsa'], 'hostkeys': rsa_hk(4096)},
    'smallca':    {'kex': ['curve25519-sha256'], 'key': ['ssh-ed25519-cert-v01@openssh.com', 'ssh-ed25519'], 'hostkeys': dict({'ssh-ed25519-cert-v01@openssh.com': {'t': 'cert', 'kind': 'ssh-ed25519-cert-v01@openssh.com', 'ca': {'t': 'rsa', 'bits': 1024}}}, **HK_ED)},
    'ecdsaca':    {'kex': ['curve25519-sha256'], 'key': ['ssh-ed25519-cert-v01@openssh.com', 'ssh-rsa-cert-v01@openssh.com'], 'hostkeys': {'ssh-ed25519-cert-v01@openssh.com': {'t': 'cert', 'kind': 'ssh-ed25519-cert-v01@openssh.com', 'ca': {'t': 'ecdsa', 'curve': 'nistp256'}}, 'ssh-rsa-cert-v01@openssh.com': {'t': 'cert', 'kind': 'ssh-rsa-cert-v01@openssh.com', 'bits': 2048, 'ca': {'t': 'rsa', 'bits': 4096}}}},
    'gex1024':    {'banner': 'SSH-2.0-dropbear_2020.81', 'kex': ['curve25519-sha256', 'diffie-hellman-group-exchange-sha256', 'diffie-hellman-group-exchange-sha1'], 'key': ['ssh-ed25519'], 'hostkeys': HK_ED, 'moduli': [1024, 2048], 'gex_style': 'strict'},
    'gex2048ossh': {'banner': 'SSH-2.0-OpenSSH_8.0', 'kex': ['curve25519-sha256', 'diffie-hellman-group-exchange-sha256'], 'key': ['ssh-ed25519'], 'hostkeys': HK_ED, 'moduli': [], 'gex_style': 'openssh'},
    'gex3072ossh': {'banner': 'SSH-2.0-OpenSSH_8.0', 'kex': ['curve25519-sha256', 'diffie-hellman-group-exchange-sha256'], 'key': ['ssh-ed25519'], 'hostkeys': HK_ED, 'moduli': [3072], 'gex_style': 'openssh'},
    'gex4096':    {'kex': ['diffie-hellman-group-exchange-sha256', 'diffie-hellman-group-exchange-sha1'], 'key': ['ssh-ed25519'], 'hostkeys': HK_ED, 'moduli': [4096], 'gex_style': 'roundup'},
    # edits of the rating table that replace a note instead of adding one (the table keeps its size)
    'gexsha1-1024': {'banner': 'SSH-2.0-dropbear_2020.81', 'kex': ['diffie-hellman-group-exchange-sha1'], 'key': ['ssh-ed25519'], 'hostkeys': HK_ED, 'moduli': [1024], 'gex_style': 'strict'},
    'gexsha1-4096': {'banner': 'SSH-2.0-dropbear_2020.81', 'kex': ['diffie-hellman-group-exchange-sha1'], 'key': ['ssh-ed25519'], 'hostkeys': HK_ED, 'moduli': [4096], 'gex_style': 'roundup'},
    'gexsha1-nosize': {'banner': 'SSH-2.0-dropbear_2020.81', 'kex': ['diffie-hellman-group-exchange-sha1'], 'key': ['ssh-ed25519'], 'hostkeys': HK_ED, 'moduli': [], 'gex_style': 'strict'},
    # names that exist in both protocol versions' rating tables (next to an SSH-1 target)
    'shared-names': {'banner': 'SSH-2.0-dropbear_2020.81', 'kex': ['curve25519-sha256'], 'key': ['ssh-ed25519'], 'enc': ['none', '3des', 'des', 'blowfish', 'aes128-ctr'], 'mac': ['hmac-sha2-256', 'none'], 'hostkeys': HK_ED},
    'unknown':    {'kex': ['curve25519-sha256', 'foo-kex@example.com'], 'key': ['ssh-ed25519', 'bar-key'], 'enc': ['aes128-ctr', 'baz-cbc'], 'mac': ['hmac-sha2-256', 'qux-etm@openssh.com'], 'hostkeys': HK_ED},
    'gss':        {'kex': ['gss-gex-sha1-dZuIebMjgUqaxvbF7hDbAw==', 'gss-group14-sha256-toWM5Slw5Ew8Mqkay+al2g==', 'curve25519-sha256'], 'key': ['ssh-ed25519', 'null'], 'hostkeys': HK_ED},
    'weakmac':    {'kex': ['diffie-hellman-group1-sha1'], 'key': ['ssh-dss', 'ssh-ed25519'], 'enc': ['3des-cbc', 'arcfour'], 'mac': ['hmac-md5', 'hmac-sha2-256-96'], 'hostkeys': HK_ED},
    'probe-stall': {'kex': ['curve25519-sha256'], 'key': ['ssh-rsa', 'ssh-ed25519'], 'hostkeys': dict(rsa_hk(2048), **HK_ED), 'faults': [['kexdh_reply', 1, 'stall']]},          # the RSA probe never gets its reply
    'probe-noreply': {'kex': ['curve25519-sha256'], 'key': ['ssh-rsa', 'ssh-ed25519'], 'hostkeys': HK_ED},                                                                 # the server hangs up on the RSA probe
    'rsa1024-abort': {'kex': ['curve25519-sha256'], 'key': ['ssh-rsa', 'ssh-ed25519'], 'hostkeys': dict(rsa_hk(1024), **HK_ED), 'faults': [['kexinit', 2, ['set_len', 0x1235]]]},  # earns a note, then a bad packet ends the scan
    # banners that differ from one another only in what a sanitiser, a tokeniser or a version parser throws away
    'banner-ctrl':  {'banner': 'SSH-2.0-OpenSSH_9.3 build\x01one', 'kex': ['curve25519-sha256'], 'key': ['ssh-ed25519'], 'hostkeys': HK_ED},
    'banner-qmark': {'banner': 'SSH-2.0-OpenSSH_9.3 build?one', 'kex': ['curve25519-sha256'], 'key': ['ssh-ed25519'], 'hostkeys': HK_ED},
    'banner-199':   {'banner': 'SSH-1.99-OpenSSH_9.3', 'kex': ['curve25519-sha256'], 'key': ['ssh-ed25519'], 'hostkeys': HK_ED},
    'banner-p1':    {'banner': 'SSH-2.0-OpenSSH_9.3p1 build?one', 'kex': ['curve25519-sha256'], 'key': ['ssh-ed25519'], 'hostkeys': HK_ED},
    # peers whose answers take their time: between a request and its reply the other workers run
    'clean-slow':   {'kex': ['sntrup761x25519-sha512@openssh.com', 'curve25519-sha256'], 'key': ['ssh-ed25519'], 'enc': ['aes256-gcm@openssh.com', 'aes128-ctr'], 'mac': ['hmac-sha2-256-etm@openssh.com'], 'hostkeys': HK_ED, 'latency': True},
    'smallca-slow': {'kex': ['curve25519-sha256'], 'key': ['ssh-ed25519-cert-v01@openssh.com', 'ssh-ed25519'], 'hostkeys': dict({'ssh-ed25519-cert-v01@openssh.com': {'t': 'cert', 'kind': 'ssh-ed25519-cert-v01@openssh.com', 'ca': {'t': 'rsa', 'bits': 1024}}}, **HK_ED), 'latency': True},
    'ecdsaca-slow': {'kex': ['curve25519-sha256'], 'key': ['ssh-rsa-cert-v01@openssh.com', 'ssh-ed25519'], 'hostkeys': dict({'ssh-rsa-cert-v01@openssh.com': {'t': 'cert', 'kind': 'ssh-rsa-cert-v01@openssh.com', 'bits': 2048, 'ca': {'t': 'ecdsa', 'curve': 'nistp256'}}}, **HK_ED), 'latency': True},
    'rsa1024-slow': {'kex': ['curve25519-sha256'], 'key': ['ssh-rsa', 'ssh-ed25519'], 'hostkeys': dict(rsa_hk(1024), **HK_ED), 'latency': True},
    'gex1024-slow': {'banner': 'SSH-2.0-dropbear_2020.81', 'kex': ['curve25519-sha256', 'diffie-hellman-group-exchange-sha256'], 'key': ['ssh-ed25519'], 'hostkeys': HK_ED, 'moduli': [1024], 'gex_style': 'roundup', 'latency': True},
    'gex4096-slow': {'banner': 'SSH-2.0-dropbear_2020.81', 'kex': ['curve25519-sha256', 'diffie-hellman-group-exchange-sha256'], 'key': ['ssh-ed25519'], 'hostkeys': HK_ED, 'moduli': [4096], 'gex_style': 'roundup', 'latency': True},
    # a second server that triggers the OpenSSH fallback handling, with other flagged algorithms than the first
    'gex2048ossh-b': {'banner': 'SSH-2.0-OpenSSH_8.0', 'kex': ['curve25519-sha256', 'diffie-hellman-group-exchange-sha256'], 'key': ['ssh-ed25519'], 'enc': ['aes128-ctr', '3des-cbc', 'aes256-cbc'], 'mac': ['hmac-sha2-256', 'hmac-md5', 'hmac-sha1-etm@openssh.com'], 'hostkeys': HK_ED, 'moduli': [], 'gex_style': 'openssh'},
    # Diffie-Hellman servers that treat bursts of connections differently (it shows when the rate check runs)
    'dh-open':      {'kex': ['diffie-hellman-group14-sha256', 'curve25519-sha256'], 'key': ['ssh-ed25519'], 'hostkeys': HK_ED, 'rate': 'normal'},
    'dh-open-b':    {'kex': ['diffie-hellman-group16-sha512', 'curve25519-sha256'], 'key': ['ssh-ed25519'], 'enc': ['aes128-ctr', 'aes256-ctr'], 'hostkeys': HK_ED, 'rate': 'normal'},
    'dh-throttled': {'kex': ['diffie-hellman-group14-sha256', 'curve25519-sha256'], 'key': ['ssh-ed25519'], 'hostkeys': HK_ED, 'rate': 'stall'},
    'dh-maxstartups': {'kex': ['diffie-hellman-group16-sha512'], 'key': ['ssh-ed25519'], 'hostkeys': HK_ED, 'rate': 'mixed:4:greet:Exceeded MaxStartups\r\n'},
    'ssh1':       {'proto': 1},
    'refuse':     None,
}
ORDER = sorted(ARCH)
POLICY = '''name = "C07 policy"
version = 1
host keys = ssh-ed25519
key exchanges = sntrup761x25519-sha512@openssh.com, curve25519-sha256
ciphers = aes256-gcm@openssh.com, aes128-ctr
macs = hmac-sha2-256-etm@openssh.com
'''
MODES = {'text': ['-n'], 'json': ['-n', '-j'], 'policy': ['-n', '-P', None], 'policy-json': ['-n', '-j', '-P', None], 'text-rate': ['-n'], 'json-rate': ['-n', '-j']}      # '-rate': the connection-rate check runs
_solo_cache = {}
OOB_LINES = ('[exception] invalid ssh packet (block size)', '[exception] packet checksum CRC32 mismatch.')


def add_target(net, host, arch, port=22):
    spec = ARCH[arch]
    if spec is None:
        net.resolve[host] = [(2, '10.9.9.%d' % (1 + len(net.resolve)))]
        return
    s = dict(spec)
    s.setdefault('banner', 'SSH-2.0-OpenSSH_9.3')
    net.add(host, port, fakenet.peer_from_spec(s), ips=net.resolve.get(host))      # a name listed again (on another port) keeps its address


def split_target(t):
    h, _, p = t.partition(':')
    return h, int(p) if p else 22


def run_targets(hosts_archs, mode, threads, choices, gate_connections=True, policy_path=None):
    """hosts_archs: (target as written in the file - 'host' or 'host:port' -, archetype)"""
    net = fakenet.FakeNet()
    for h, a in hosts_archs:
        add_target(net, split_target(h)[0], a, split_target(h)[1])
    tf = drive.tmpfile('\n'.join(h for h, _ in hosts_archs) + '\n')
    argv = [x if x is not None else policy_path for x in MODES[mode]] + ([] if mode.endswith('-rate') else ['--skip-rate-test']) + ['--threads', str(threads), '-T', tf]
    try:
        if choices is None:
            r = drive.run_cli(argv, net)
            sch = None
        else:
            r, sch = sched.run_scheduled(argv, net, len(hosts_archs), threads, choices, gate_connections)
    finally:
        os.unlink(tf)
    return r, sch


RATE_NUMBERS = None


def blocks_of(out, mode):
    """-> dict target-host -> block text (text modes) or JSON value (json modes); None if unparseable."""
    global RATE_NUMBERS
    if RATE_NUMBERS is None:
        import re
        RATE_NUMBERS = re.compile(r'(\d+) connections were created in [\d.]+ seconds, or [\d.]+ conns/sec')
    out = RATE_NUMBERS.sub(r'\1 connections were created in T seconds, or R conns/sec', out)       # how long the burst took is a measurement, not a finding
    if mode in ('json', 'policy-json', 'json-rate'):
        try:
            arr = json.loads(out)
        except ValueError:
            return None
        res = {}
        for d in arr:
            if isinstance(d, dict):
                key = d.get('target', '') if 'target' in d else ('%s:%s' % (d.get('host'), d.get('port')) if 'port' in d else d.get('host'))
                res.setdefault(norm_key(key), []).append(d)
        return res
    res = {}
    out = '\n'.join(l for l in out.split('\n') if report.strip_ansi(l) not in OOB_LINES)      # C08's recorded finding: these lines are printed out of band
    for b in report.split_blocks(out):
        b = b.strip('\n')
        tr = report.TextReport(b)
        key = None
        if tr.gen.get('target'):
            key = tr.gen['target'][0]
        else:
            pr = report.policy_result(b)
            key = pr['host']
        if key is None:
            import re
            m = re.search(r'cannot connect to (\S+) port', b) or re.search(r'scanning (\S+):\d+', b)
            key = m.group(1) if m else '?'
        res.setdefault(norm_key(key), []).append(b)
    return res


def norm_key(key):
    """'host' and 'host:22' are one target"""
    key = str(key)
    return key[:-3] if key.endswith(':22') else key


def solo(host, arch, mode, policy_path):
    k = (host, arch, mode)
    if k not in _solo_cache:
        r, _ = run_targets([(host, arch)], mode, 1, None, policy_path=policy_path)
        _solo_cache[k] = (r.code, blocks_of(r.out, mode), r.out)
    return _solo_cache[k]


def eval_real(case):
    """Engine B: real process, real worker threads racing freely over loopback TCP."""
    archs, mode, threads = [a for a in case['archs'] if ARCH[a] is not None], case['mode'], case['threads']
    peers = [fakenet.peer_from_spec(dict(ARCH[a], banner=ARCH[a].get('banner', 'SSH-2.0-OpenSSH_9.3'))) for a in archs]
    fails = []
    with drive.RealServers(peers) as rs:
        targets = ['127.0.0.1:%d' % p for p in rs.ports]
        def run(tl, k):
            tf = drive.tmpfile('\n'.join(tl) + '\n')
            try:
                return drive.run_subprocess([x for x in MODES[mode] if x is not None] + ['--skip-rate-test', '--threads', str(k), '-T', tf])
            finally:
                os.unlink(tf)
        solos = {}
        for t in targets:
            r = run([t], 1)
            solos[t] = blocks_of(r.out, mode)
        r = run(targets, threads)
    got = blocks_of(r.out, mode)
    if got is None:
        fails.append(['real-process-multi-target-output-unparseable', r.out[:200]])
    else:
        for t, a in zip(targets, archs):
            want = (solos[t] or {}).get(t)
            if want is not None and got.get(t) != want:
                fails.append(['real-process-result-of-%s-depends-on-other-targets' % a, 'mode %s threads %d archs %r: %s' % (mode, threads, archs, _diff(want, got.get(t), mode))])
    return mkres(case, nt=len(set(archs)) > 1, classes=['engine-B', 'mode:' + mode, 'threads:%d' % threads], fails=fails)


def eval_case(case):
    if case.get('kind') == 'real':
        return eval_real(case)
    archs, mode, threads = case['archs'], case['mode'], case['threads']
    ports = case.get('ports') or [None] * len(archs)
    hosts_archs = [('t%d' % (0 if case.get('samehost') else i) if ports[i] is None else 't%d:%d' % (0 if case.get('samehost') else i, ports[i]), a) for i, a in enumerate(archs)]
    policy_path = None
    if mode.startswith('policy'):
        policy_path = drive.tmpfile(POLICY)
    fails = []
    try:
        r, sch = run_targets(hosts_archs, mode, threads, case.get('choices'), case.get('gate_connections', True), policy_path)
        if r.hang or (sch is not None and sch.broken):
            raise RuntimeError('scheduler made no progress: %r' % (r.hang or sch.trace[-5:]))
        if r.exc:
            fails.append([drive.crash_sig(r), r.brief()])
            return mkres(case, nt=True, classes=['crashed'], fails=fails)
        got = blocks_of(r.out, mode)
        if got is None:
            if any(ARCH[a] is None or a == 'rsa1024-abort' for a in archs):
                # a target that cannot be reached makes the JSON array unparseable: C08's recorded finding, nothing to compare here
                return mkres(case, nt=False, classes=['json-with-unreachable-target'], fails=[])
            fails.append(['multi-target-json-unparseable', r.out[:300]])
            return mkres(case, nt=True, classes=['unparseable'], fails=fails)
        for h, a in hosts_archs:
            scode, sblocks, sout = solo(h, a, mode, policy_path)
            want = (sblocks or {}).get(norm_key(h))
            have = got.get(norm_key(h))
            if want is None:
                continue            # the solo run itself has no attributable block (C08's business)
            if have != want:
                others = [x for hh, x in hosts_archs if hh != h]
                kind = 'appears' if have is not None else 'missing'
                detail = _diff(want, have, mode)
                fails.append(['result-of-%s-depends-on-other-targets' % a, 'mode %s threads %d order %r choices %r: target %s (%s) with %r: %s' % (mode, threads, archs, case.get('choices'), h, a, others, detail)])
    finally:
        if policy_path:
            os.unlink(policy_path)
    assign = sch.thread_assignment() if sch else []
    reused = any(len(x) > 1 for x in assign)
    inter = sch.interleaved() if sch else False
    nt = (reused and len(set(archs)) > 1) or inter
    if any(p is not None for p in ports):
        cl0 = ['ports-in-file:' + ''.join('p' if p is not None else '-' for p in ports[:4])]
    else:
        cl0 = []
    if case.get('all_interleavings'):
        cl0.append('one-of-all-interleavings-of-a-pair')
    cl = cl0 + ['mode:' + mode, 'threads:%d' % min(threads, 5), 'n:%d' % min(len(archs), 5)] + (['thread-reused'] if reused else []) + (['interleaved'] if inter else []) + (['free-running'] if sch is None else [])
    return mkres(case, nt=nt, classes=cl, fails=fails[:4])


def _diff(want, have, mode):
    if have is None:
        return 'block missing'
    if mode in ('json', 'policy-json', 'json-rate'):
        a, b = json.dumps(want, sort_keys=True, indent=0).split('\n'), json.dumps(have, sort_keys=True, indent=0).split('\n')
    else:
        a, b = '\n'.join(want).split('\n'), '\n'.join(have).split('\n')
    import difflib
    d = [l for l in difflib.unified_diff(a, b, lineterm='', n=0) if not l.startswith(('---', '+++', '@@'))]
    return ' | '.join(d[:6])[:700]


def valid_case(case):
    return len(case['archs']) >= 2


NO_SHRINK_KEYS = ('choices',)


def strat_history():
    def build(t):
        archs, mode, threads, choices, gate, ports = t
        c = {'archs': archs, 'mode': mode, 'threads': min(threads, len(archs)), 'choices': choices, 'gate_connections': gate}
        if any(p is not None for p in ports[:len(archs)]):
            c['ports'] = ports[:len(archs)]        # some lines of the targets file carry their own port, others rely on the default
        return c
    return st.tuples(st.lists(st.sampled_from(ORDER), min_size=2, max_size=4), st.sampled_from(['text', 'json', 'text', 'json', 'policy', 'policy-json']), st.integers(1, 3), st.lists(st.integers(0, 3), min_size=1, max_size=40), st.booleans(),
                     st.one_of(st.just([None] * 4), st.lists(st.sampled_from([None, None, 2222, 22, 1022]), min_size=4, max_size=4))).map(build)


def run(ctx):
    cases = []
    rng = ctx.rng
    pairs = list(itertools.permutations(ORDER, 2)) + [(a, a) for a in ORDER]
    if ctx.quick:
        # all ordered pairs on one reused worker thread (text + json) ...
        for a, b in pairs:
            cases.append({'archs': [a, b], 'mode': 'text' if (ORDER.index(a) + ORDER.index(b)) % 2 else 'json', 'threads': 1, 'choices': [0]})
        # ... and a seeded third of them with two threads under a generated interleaving
        for a, b in pairs:
            if True:
                cases.append({'archs': [a, b], 'mode': rng.choice(['text', 'json']), 'threads': 2, 'choices': [rng.randint(0, 1) for _ in range(24)]})
        for a, b in rng.sample(pairs, 150):
            cases.append({'archs': [a, b], 'mode': rng.choice(['policy', 'policy-json']), 'threads': rng.choice([1, 2]), 'choices': [rng.randint(0, 1) for _ in range(12)]})
    else:
        for a, b in pairs:
            for mode in ('text', 'json', 'policy'):
                cases.append({'archs': [a, b], 'mode': mode, 'threads': 1, 'choices': [0]})
                for _ in range(2):
                    cases.append({'archs': [a, b], 'mode': mode, 'threads': 2, 'choices': [rng.randint(0, 1) for _ in range(24)]})
        for tr in itertools.permutations(ORDER, 3):
            if rng.random() < 0.5:
                k = rng.choice([1, 2, 3])
                cases.append({'archs': list(tr), 'mode': rng.choice(['text', 'json']), 'threads': k, 'choices': [rng.randint(0, 2) for _ in range(30)]})
    # (one worker: the rate check measures against the clock, which concurrent scans would share)
    # with the rate check running: servers on one address (several ports of one host) and on different ones
    dh = ['dh-open', 'dh-throttled', 'dh-maxstartups', 'clean', 'gex1024']
    for i, (a, b) in enumerate(itertools.permutations(dh, 2)):
        for same in (True, False):
            cases.append({'archs': [a, b], 'mode': ('text-rate', 'json-rate')[i % 2], 'threads': 1, 'choices': [0], 'ports': [2200, 2201] if same else None, 'samehost': same})
    # two servers that answer the rate check at once, scanned concurrently (nothing there waits on the clock)
    for i in range(12 if ctx.quick else 120):
        a, b = [('dh-open', 'dh-open-b'), ('dh-open-b', 'dh-open'), ('dh-open', 'dh-open')][i % 3]
        cases.append({'archs': [a, b] + (['dh-open-b'] if i % 4 == 3 else []), 'mode': ('text-rate', 'json-rate')[i % 2], 'threads': 2 + (i % 4 == 3), 'choices': [rng.randint(0, 2) for _ in range(50)]})
    # more targets and worker threads than any fixed-size table of per-thread state would hold: 33-40 scans in their
    # probing phase at once (every worker is inside a scan before the first one finishes)
    wide_arch = ['rsa1024', 'gex1024', 'terrapin', 'smallca', 'clean', 'rsa2048']
    for i in range(3 if ctx.quick else 24):
        n = 33 + (ctx.seed + 3 * i) % 8
        cases.append({'archs': [wide_arch[(i + j * (1 + i % 3)) % len(wide_arch)] for j in range(n)], 'mode': ('text', 'json')[i % 2], 'threads': n + i % 3,
                      # lock-step (every worker advances by one connection per round, so all of them are in the same phase at once) or random
                      'choices': list(range(n)) if i % 3 != 2 else [rng.randint(0, n) for _ in range(60)], 'wide': True})
    # every interleaving of the connection events of two targets on two worker threads (the number of gate events of
    # each archetype - its start plus every connection it opens or read it blocks on - is measured in a solo run)
    ev = {}
    for a in ORDER:
        r0, sch0 = run_targets([('t0', a)], 'json', 1, [0])
        ev[a] = len([e for e in sch0.trace if e[0] in ('start', 'connect')])
    import math
    inter, n_pairs_full = [], 0
    cap = 100 if ctx.quick else 3500
    for i, a in enumerate(ORDER):
        for b in ORDER[i:]:
            na, nb = ev[a], ev[b]
            total = math.comb(na + nb, na)
            if total > cap:
                if ctx.quick:
                    continue
                combos = [tuple(sorted(rng.sample(range(na + nb), na))) for _ in range(400)]      # too many to list: a sample
            else:
                combos = list(itertools.combinations(range(na + nb), na))
                n_pairs_full += 1
            for zeros in combos:
                zs = set(zeros)
                inter.append({'archs': [a, b], 'mode': 'json' if (len(inter) % 3) else 'text', 'threads': 2, 'choices': [0 if k in zs else 1 for k in range(na + nb)], 'all_interleavings': True})
    cases += inter
    ctx.note(pairs_with_every_interleaving=n_pairs_full, interleaving_cases=len(inter), gate_events_per_archetype=ev)
    ctx.map(cases)
    ctx.hyp('strat_history', 2500 if ctx.quick else 30000, label=1, shards=16)
    # free-running threads (no scheduler): the real pool decides
    free = []
    for a, b, c in rng.sample(list(itertools.permutations(ORDER, 3)), 30 if ctx.quick else 400):
        free.append({'archs': [a, b, c], 'mode': rng.choice(['text', 'json']), 'threads': rng.choice([2, 3]), 'choices': None})
    ctx.map(free)
    real = []
    # (the same real server serves the single-target run and the list run, so only archetypes whose script does not depend on the connection index)
    real_ok = [a for a in ORDER if ARCH[a] is not None and a != 'ssh1' and all(f[1] == '*' for f in ARCH[a].get('faults', []))]
    for tr in rng.sample(list(itertools.permutations(real_ok, 3)), 8 if ctx.quick else 120):
        real.append({'kind': 'real', 'archs': list(tr) + [tr[0]], 'mode': rng.choice(['text', 'json']), 'threads': rng.choice([1, 2, 4])})
    ctx.map(real, chunk=1)
    ctx.note(traces_validated_against_impl=len(real))
    ctx.note(archetypes=ORDER, ordered_pairs=len(pairs))
    return ctx.finish('exploration', 'ordered pairs (all) / every interleaving of the gate events of two targets on two threads (all pairs whose interleavings number at most 100, thorough 3500; sampled beyond) / triples (thorough: half of all) / Hypothesis histories of 2-4 target archetypes (one per channel through which a scan edits the rating tables, plus SSH-1 and a refusing host) x text / JSON / policy output x 1-3 worker threads x harness-owned schedules (generated choice lists decide which waiting worker proceeds at each worker start and each connection event) plus free-running runs; oracle = byte-identical block of a fresh single-target run; non-trivial = a worker thread reused for a different archetype, or interleaved connection events',
                      assumptions=['the wrapper around target_worker_thread and the connection gate only delay threads, they do not change what any thread computes'])

"""C02 — exit status reflects the worst finding; incomplete audits never look clean.

(i) peers mixing fail / warn / clean names x output options x role: exit status must be 3/2/0 by the
worst severity, computed independently from the table classes (+ Terrapin context, + unknown names);
(ii) handshakes broken at every stage: status not in {0,2,3}, no algorithm report;
(iii) policy audits: status 0 iff passed, 3 iff failed.
"""
import itertools
import json
import os

from hypothesis import strategies as st

from vlib import fakenet, drive, report, refmodel, gens, wire, polpeer
from vlib.runner import mkres
from checks import c04

ID = 'C02'
CATS = ('kex', 'key', 'enc', 'mac')
OPTION_SETS = [list(o) for o in [
    (), ('-b',), ('-v',), ('-b', '-v'), ('-l', 'warn'), ('-l', 'fail'), ('-b', '-l', 'fail'), ('-v', '-l', 'warn'), ('-j',), ('-jj',), ('-j', '-l', 'fail'), ('-j', '-v'), ('-b', '-v', '-l', 'info'), ('-jj', '-b'),
]]
COLOR = [['-n'], []]


def expected_status(lists, role):
    db = gens.db()
    worst = 0
    why = []
    for c in CATS:
        for n in lists[c]:
            if n == '':
                continue
            cls = refmodel.rating_class(refmodel.db_lookup(db, c, n))
            if cls == 'fail':
                worst = 3
                why.append((c, n, 'fail'))
            elif cls in ('warn', 'unknown') and worst < 3:
                worst = max(worst, 2)
                why.append((c, n, cls))
    has_marker, vs, exposed = c04.reference({'role': role, 'kex': lists['kex'], 'enc': lists['enc'], 'mac': lists['mac']})
    if exposed and any(refmodel.db_lookup(db, 'enc' if x in lists['enc'] else 'mac', x) is not None for x in vs):
        worst = max(worst, 2)
        why.append(('terrapin', vs))
    return worst, why


def has_report(out, js):
    if js:
        try:
            d = json.loads(out)
        except ValueError:
            return False
        return isinstance(d, dict) and any(k in d for k in ('kex', 'enc', 'key', 'mac'))
    return report.TextReport(out).has_algorithm_report()


def eval_case(case):
    k = case['kind']
    fails = []
    if k == 'rated':
        lists, role, opts = case['lists'], case['role'], case['opts']
        spec = {'banner': case.get('banner', 'SSH-2.0-OpenSSH_9.0'), 'kex': lists['kex'], 'key': lists['key'], 'enc': lists['enc'], 'mac': lists['mac']}
        other = case.get('other')
        if other:
            # the two directions advertise different ciphers / MACs; lists[...] is the direction of the audited role
            if role == 'server':
                spec.update(enc_c=other['enc'], mac_c=other['mac'])
            else:
                spec.update(enc=other['enc'], mac=other['mac'], enc_c=lists['enc'], mac_c=lists['mac'])
        peer = fakenet.Server(spec)
        net = fakenet.FakeNet()
        if role == 'server':
            net.add('h', 22, peer)
            r = drive.run_cli(opts + ['--skip-rate-test', 'h'], net)
        else:
            net.pending_clients.append(peer)
            r = drive.run_cli(opts + ['-c'], net)
        want, why = expected_status(lists, role)
        js = '-j' in opts or '-jj' in opts
        cl = ['rated', 'role:' + role, 'want:%d' % want, 'json' if js else 'text'] + [o for o in opts if o in ('-b', '-v', '-n')] + (['level:' + opts[opts.index('-l') + 1]] if '-l' in opts else [])
        # non-trivial: a lower-rated name comes after a higher-rated one, or a hiding level / JSON
        db = gens.db()
        order = [refmodel.rating_class(refmodel.db_lookup(db, c, n)) for c in CATS for n in lists[c]]
        later_lower = any(a == 'fail' and b in ('warn', 'unknown', 'clean') for a, b in zip(order, order[1:]))
        nt = later_lower or js or '-l' in opts
        if r.exc or r.hang:
            fails.append([drive.crash_sig(r) if r.exc else 'hang', r.brief()])
        elif r.code != want and not other:      # (with different directions the reference would have to pick one: there only the relation below is judged)
            sig = 'exit-status-%d-instead-of-%d' % (r.code, want)
            fails.append([sig, 'opts %r role %s lists %r%s: exit %d, worst finding says %d (%r)' % (opts, role, lists, ' other direction %r' % other if other else '', r.code, want, why[:4])])
        else:
            # the status against the findings of the very report that was printed (every name known to the table, so that
            # text and JSON word their findings alike; no minimum level, so that nothing is hidden)
            all_known = all(n == '' or refmodel.db_lookup(db, c, n) is not None for c in CATS for n in lists[c] + ((other or {}).get(c) or []))
            if all_known and '-l' not in opts and r.code in (0, 2, 3):
                try:
                    finds = report.JsonReport(json.loads(r.out)).findings() if js else report.TextReport(r.out, verbose='-v' in opts).findings()
                    sevs = {sev for _, n, sev, _ in finds if n != ''}       # (JSON keeps an entry for an empty list element)
                    in_report = 3 if 'fail' in sevs else (2 if 'warn' in sevs else 0)
                    if in_report != r.code:
                        fails.append(['exit-status-%d-but-worst-finding-in-the-report-is-%d' % (r.code, in_report), 'opts %r role %s lists %r%s' % (opts, role, lists, ' other direction %r' % other if other else '')])
                except ValueError:
                    fails.append(['json-unparseable', r.out[-200:]])
        if other:
            cl.append('asymmetric-directions')
        return mkres(case, nt=nt, classes=cl, fails=fails)
    if k == 'broken':
        opts = case['opts']
        js = '-j' in opts or '-jj' in opts
        net = fakenet.FakeNet()
        stage = case['stage']
        spec = {'banner': 'SSH-2.0-OpenSSH_9.0', 'kex': ['curve25519-sha256', 'diffie-hellman-group1-sha1'], 'key': ['ssh-ed25519', 'ssh-dss'], 'enc': ['aes128-ctr', '3des-cbc'], 'mac': ['hmac-sha2-256', 'hmac-md5']}
        if stage == 'unresolvable':
            pass
        elif stage == 'refused':
            net.resolve['h'] = [(2, '10.0.0.9')]
        elif stage == 'timeout':
            net.resolve['h'] = [(2, '10.0.0.9')]
            net.servers[('10.0.0.9', 22)] = 'timeout'
        else:
            spec['faults'] = [case['fault']]
            if case.get('proto') == 1:
                spec = {'proto': 1, 'faults': [case['fault']], 'bad_crc': case.get('bad_crc', False)}
                if case.get('pkm_raw') is not None:
                    spec['pkm_raw'] = case['pkm_raw']
                net.add('h', 22, fakenet.Ssh1Server(spec))
            else:
                net.add('h', 22, fakenet.Server(spec))
        r = drive.run_cli(opts + ['--skip-rate-test'] + (['-1'] if case.get('proto') == 1 and not case.get('fallback') else []) + ['h'], net)
        cl = ['broken', 'stage:' + stage, 'json' if js else 'text']
        if r.hang:
            fails.append(['hang', r.brief()])
        elif r.exc:
            # an internal error is not a clean-looking result, but it is C09's violation; here only the status class matters
            pass
        if r.code in (0, 2, 3):
            fails.append(['incomplete-audit-exits-%d' % r.code, 'stage %s fault %r opts %r: exit %d; out tail %r' % (stage, case.get('fault'), opts, r.code, r.out[-200:])])
        if '-P' in opts:
            verdict = None
            if js:
                try:
                    d = json.loads(r.out)
                    verdict = d.get('passed') if isinstance(d, dict) else None
                except ValueError:
                    pass
            else:
                verdict = report.policy_result(r.out)['passed']
            cl.append('policy-audit')
            if verdict is not None:
                fails.append(['incomplete-policy-audit-prints-verdict', 'stage %s fault %r opts %r: verdict %r; %r' % (stage, case.get('fault'), opts, verdict, r.out[-300:])])
        if has_report(r.out, js):
            fails.append(['incomplete-audit-prints-algorithm-report', 'stage %s fault %r opts %r: %r' % (stage, case.get('fault'), opts, r.out[-300:])])
        return mkres(case, nt=True, classes=cl, fails=fails)
    if k == 'multi':
        # several rated peers in one invocation with -j: the run's status is the worst finding of any of the documents printed
        net = fakenet.FakeNet()
        for i, lists in enumerate(case['peers']):
            net.add('s%d' % i, 22, fakenet.Server({'banner': 'SSH-2.0-OpenSSH_9.0', 'kex': lists['kex'], 'key': lists['key'], 'enc': lists['enc'], 'mac': lists['mac']}))
        tf = drive.tmpfile(''.join('s%d\n' % i for i in range(len(case['peers']))))
        try:
            r = drive.run_cli(['-n', '-j', '--skip-rate-test', '--threads', str(case['threads']), '-T', tf], net)
        finally:
            os.unlink(tf)
        cl = ['multi-target', 'n:%d' % len(case['peers']), 'threads:%d' % case['threads']]
        if r.exc or r.hang:
            fails.append([drive.crash_sig(r) if r.exc else 'hang', r.brief()])
            return mkres(case, nt=True, classes=cl, fails=fails)
        try:
            docs = json.loads(r.out)
        except ValueError:
            fails.append(['json-unparseable', r.out[-200:]])
            return mkres(case, nt=True, classes=cl, fails=fails)
        worst = 0
        for d in docs:
            sevs = {sev for _, n, sev, _ in report.JsonReport(d).findings() if n != ''}
            worst = max(worst, 3 if 'fail' in sevs else (2 if 'warn' in sevs else 0))
        want = max(expected_status(l, 'server')[0] for l in case['peers'])
        if r.code != worst:
            fails.append(['multi-target-exit-status-%d-but-worst-finding-in-the-documents-is-%d' % (r.code, worst), 'peers %r' % (case['peers'],)])
        elif r.code != want:
            fails.append(['exit-status-%d-instead-of-%d' % (r.code, want), 'multi-target run, peers %r' % (case['peers'],)])
        return mkres(case, nt=True, classes=cl + ['want:%d' % want], fails=fails)
    if k == 'ssh1rated':
        # protocol-1 peers: the status follows from the worst rating among the key, the ciphers and the authentication types shown
        from ssh_audit.ssh1_kexdb import SSH1_KexDB
        d1 = SSH1_KexDB.MASTER_DB
        cm, am, opts = case['cmask'], case['amask'], case['opts']
        names = [('key', 'ssh-rsa1')] + [('enc', wire.SSH1_CIPHERS[i]) for i in range(7) if cm >> i & 1] + [('aut', wire.SSH1_AUTHS[i]) for i in range(1, 7) if am >> i & 1]
        worst = 0
        for cat, n in names:
            e = d1[cat].get(n)
            if e is None:
                worst = max(worst, 2)
            else:
                worst = max(worst, 3 if (len(e) > 1 and e[1]) else (2 if (len(e) > 2 and e[2]) else 0))
        net = fakenet.FakeNet()
        net.add('h', 22, fakenet.Ssh1Server(cmask=cm, amask=am))
        r = drive.run_cli(opts + (['-1'] if case['flag1'] else []) + ['--skip-rate-test', 'h'], net)
        cl = ['ssh1-rated', 'want:%d' % worst] + [o for o in opts if o != '-n']
        if r.exc or r.hang:
            fails.append([drive.crash_sig(r) if r.exc else 'hang', r.brief()])
        elif r.code != worst and names[1:]:
            fails.append(['exit-status-%d-instead-of-%d-ssh1' % (r.code, worst), 'cipher mask %#x auth mask %#x opts %r: exit %d, the ratings of %r say %d' % (cm, am, opts, r.code, [n for _, n in names], worst)])
        return mkres(case, nt=True, classes=cl, fails=fails)
    if k == 'noverdict':
        # a policy audit that cannot be carried out (policy of the other role, policy file that does not load):
        # no verdict, hence neither of the two verdict statuses
        js = case['json']
        net = fakenet.FakeNet()
        peer = fakenet.Server({'kex': ['curve25519-sha256'], 'key': ['ssh-ed25519'], 'enc': ['aes128-ctr'], 'mac': ['hmac-sha2-256']})
        path = None
        if case.get('text') is not None:
            path = drive.tmpfile(case['text'])
        base = ['-n'] + (['-j'] if js else []) + ['-P', path or case['policy']]
        try:
            if case['role'] == 'server':
                net.add('h', 22, peer)
                r = drive.run_cli(base + ['--skip-rate-test', 'h'], net)
            else:
                net.pending_clients.append(peer)
                r = drive.run_cli(base + ['-c'], net)
        finally:
            if path:
                os.unlink(path)
        verdict = None
        try:
            d = json.loads(r.out) if js else None
            verdict = d.get('passed') if isinstance(d, dict) else (report.policy_result(r.out)['passed'] if not js else None)
        except ValueError:
            verdict = report.policy_result(r.out)['passed']
        if r.hang:
            fails.append(['hang', r.brief()])
        if r.code in (0, 3) and not r.exc:
            fails.append(['policy-audit-without-verdict-exits-%d' % r.code, '%r: exit %d, out %r' % (case, r.code, r.out[-200:])])
        if verdict is not None:
            fails.append(['policy-audit-that-cannot-run-prints-verdict', '%r: %r' % (case, r.out[-200:])])
        if net.connects and case.get('why') != 'late':
            fails.append(['connection-made-for-unusable-policy', '%r: %r' % (case, net.connects[:2])])
        return mkres(case, nt=True, classes=['noverdict', case['why'], 'json' if js else 'text'], fails=fails)
    if k == 'policy':
        from ssh_audit.builtin_policies import BUILTIN_POLICIES
        pol = BUILTIN_POLICIES[case['policy']]
        spec = polpeer.spec_from_policy(pol)
        drift = case.get('drift')
        if drift:
            f, op = drift
            l = list(spec[f])
            if op == 'drop' and len(l) > 1:
                l = l[:-1]
            elif op == 'add':
                l = l + ['aes128-cbc' if f == 'enc' else ('hmac-md5' if f == 'mac' else ('ssh-dss' if f == 'key' else 'diffie-hellman-group1-sha1'))]
            elif op == 'swap' and len(l) > 1:
                l[0], l[1] = l[1], l[0]
            spec[f] = l
        want_pass = not drift or spec == polpeer.spec_from_policy(pol)
        for js in (False, True):
            peer = fakenet.Server(spec)
            net = fakenet.FakeNet()
            base = ['-n', '-P', case['policy']] + (['-j'] if js else [])
            if pol['server_policy']:
                net.add('h', 22, peer)
                r = drive.run_cli(base + ['--skip-rate-test', 'h'], net)
            else:
                net.pending_clients.append(peer)
                r = drive.run_cli(base + ['-c'], net)
            if r.exc or r.hang:
                fails.append([drive.crash_sig(r) if r.exc else 'hang', r.brief()])
                continue
            passed = json.loads(r.out)['passed'] if js else report.policy_result(r.out)['passed']
            if passed is None or (r.code == 0) != (passed is True) or (r.code == 3) != (passed is False):
                fails.append(['policy-exit-status-vs-verdict', '%s %s: exit %d, verdict %r' % (case['policy'], 'json' if js else 'text', r.code, passed)])
            if passed is not None and passed != want_pass:
                fails.append(['policy-verdict-unexpected', '%s drift %r: verdict %r' % (case['policy'], drift, passed)])
        return mkres(case, nt=True, classes=['policy', 'drift' if drift else 'exact'], fails=fails)
    raise ValueError(k)


def strat_rated():
    return st.tuples(st.one_of(gens.rated_peer(), gens.rated_peer(), gens.all_clean_peer()), st.sampled_from(['server', 'server', 'client']), st.sampled_from(OPTION_SETS), st.sampled_from(COLOR)).map(
        lambda t: {'kind': 'rated', 'lists': t[0], 'role': t[1], 'opts': t[3] + t[2]})


def strat_rated_asym():
    """Peers whose two directions advertise different ciphers and MACs, the worst finding sitting in one direction only."""
    def build(t):
        a, b, role, opts, color = t
        return {'kind': 'rated', 'lists': a, 'other': {'enc': b['enc'], 'mac': b['mac']}, 'role': role, 'opts': color + opts}
    return st.tuples(st.one_of(gens.rated_peer(), gens.all_clean_peer()), st.one_of(gens.rated_peer(), gens.all_clean_peer(), gens.all_clean_peer()), st.sampled_from(['server', 'client', 'client']), st.sampled_from(OPTION_SETS), st.sampled_from(COLOR)).filter(lambda t: (t[0]['enc'], t[0]['mac']) != (t[1]['enc'], t[1]['mac'])).map(build)


def strat_multi():
    """2-3 peers (all names known to the table) scanned in one run; the Terrapin context differs between them now and then."""
    def build(t):
        peers, threads, strict = t
        peers = [{c: list(v) for c, v in p.items()} for p in peers]
        for i, p in enumerate(peers):
            if strict >> i & 1:
                p['kex'] = p['kex'] + ['kex-strict-s-v00@openssh.com']
            if strict >> (i + 3) & 1 and 'chacha20-poly1305@openssh.com' not in p['enc']:
                p['enc'] = p['enc'] + ['chacha20-poly1305@openssh.com']
        return {'kind': 'multi', 'peers': peers, 'threads': threads}
    return st.tuples(st.lists(st.one_of(gens.all_clean_peer(), gens.all_clean_peer(), gens.rated_peer()), min_size=2, max_size=3), st.sampled_from([1, 1, 2]), st.integers(0, 63)).map(build)


def strat_long_rated():
    """Lists of a few hundred names whose worst-rated member comes late (many GSS instantiations of one warn-only family, then a failing one)."""
    def build(t):
        n, tailname, role, opts, color, cat = t
        lists = {'kex': ['curve25519-sha256'], 'key': ['ssh-ed25519'], 'enc': ['aes128-ctr'], 'mac': ['hmac-sha2-256']}
        if cat == 'kex':
            lists['kex'] = ['gss-curve25519-sha256-%024d==' % i for i in range(n)] + [tailname]
        else:
            rn = gens.rated_names(cat)
            pool = sorted(x for x, c in rn.items() if c != 'fail')
            lists[cat] = [pool[i % len(pool)] for i in range(n)] + [sorted(x for x, c in rn.items() if c == 'fail')[n % 3]]
        return {'kind': 'rated', 'lists': lists, 'role': role, 'opts': color + opts}
    return st.tuples(st.sampled_from([127, 128, 129, 130, 200, 257, 300]), st.sampled_from(['gss-group1-sha1-toWM5Slw5Ew8Mqkay+al2g==', 'diffie-hellman-group1-sha1', 'gss-gex-sha1-toWM5Slw5Ew8Mqkay+al2g==']), st.sampled_from(['server', 'client']),
                     st.sampled_from(OPTION_SETS), st.sampled_from(COLOR), st.sampled_from(['kex', 'kex', 'enc', 'mac', 'key'])).map(build)


def strat_unknown_mix():
    """warn-only through unknown names, single-category peers, gss names."""
    def build(t):
        base, cat, unk, gss, role, opts = t
        lists = {c: list(v) for c, v in base.items()}
        lists[cat] = lists[cat] + [unk]
        if gss is not None:
            lists['kex'] = lists['kex'] + [gss]
        return {'kind': 'rated', 'lists': lists, 'role': role, 'opts': ['-n'] + opts}
    odd = st.sampled_from(['aes256-\x1b[2Jctr', 'x\x07y', 'del\x7f', 'caf\xc3\xa9-cipher', '\xff\xfe', 'na\xc2\xa0me', 'tab\tname', 'cr\rname', '\xe2\x80\xa8'])      # (latin-1 transport of the bytes on the wire)
    return st.tuples(gens.all_clean_peer(), st.sampled_from(CATS), st.one_of(gens.unknown_name(16).filter(lambda s: not s.startswith('gss-')), gens.unknown_name(16).filter(lambda s: not s.startswith('gss-')), odd), st.one_of(st.none(), gens.gss_name()), st.sampled_from(['server', 'client']), st.sampled_from(OPTION_SETS)).map(build)


def strat_empty_names():
    """Empty name-lists and empty elements (a,,b / trailing comma) anywhere among rated names."""
    def build(t):
        base, edits, role, opts = t
        lists = {c: list(v) for c, v in base.items()}
        for cat, how, pos in edits:
            if how == 'empty-list':
                lists[cat] = ['']
            else:
                l = lists[cat]
                l.insert(min(pos, len(l)) if how == 'insert' else len(l), '')
        return {'kind': 'rated', 'lists': lists, 'role': role, 'opts': ['-n'] + opts}
    return st.tuples(gens.rated_peer(), st.lists(st.tuples(st.sampled_from(CATS), st.sampled_from(['empty-list', 'insert', 'trailing']), st.integers(0, 4)), min_size=1, max_size=3), st.sampled_from(['server', 'client']), st.sampled_from(OPTION_SETS)).map(build)


def valid_case(case):
    if case.get('kind') == 'rated':
        return all(len(case['lists'][c]) >= 1 for c in CATS)
    return True


NO_SHRINK_KEYS = ('opts', 'fault')


BROKEN_POLICY = 'Hardened OpenSSH Server v9.9 (version 1)'


def broken_cases(quick):
    cases = []
    optsets = [['-n'], ['-n', '-j'], ['-n', '-b', '-l', 'fail'], ['-n', '-v'], ['-n', '-P', BROKEN_POLICY], ['-n', '-j', '-P', BROKEN_POLICY]]
    kx = wire.kexinit([b'curve25519-sha256', b'diffie-hellman-group1-sha1'], [b'ssh-ed25519', b'ssh-dss'], [b'aes128-ctr', b'3des-cbc'], [b'hmac-sha2-256', b'hmac-md5'])
    offs, end = wire.kexinit_field_offsets(kx)
    cuts = sorted(set([1, 2, 16, 17] + offs + [o + 2 for o in offs] + [o + 4 for o in offs] + [o + 5 for o in offs] + [end, end + 1, end + 4, len(kx) - 1]))
    if not quick:
        cuts = list(range(1, len(kx)))
    for opts in optsets:
        for stage in ('unresolvable', 'refused', 'timeout'):
            cases.append({'kind': 'broken', 'stage': stage, 'opts': opts})
        for what, f, stage in [('connect', 'close', 'close-before-banner'), ('connect', 'stall', 'silent'), ('banner', ['trunc', 5, 'close'], 'close-inside-banner'), ('banner', ['trunc', 5, 'stall'], 'stall-inside-banner'),
                               ('banner', ['raw', 'HTTP/1.1 400 Bad Request\r\n\r\n', 'close'], 'garbage-instead-of-banner'), ('banner', ['raw', '\x00\x01\x02\xff\xfe' * 20, 'close'], 'binary-instead-of-banner'),
                               ('kexinit', 'close', 'close-after-banner'), ('kexinit', 'stall', 'stall-after-banner'), ('kexinit', ['type', 21], 'wrong-first-packet'), ('kexinit', ['type', 2], 'wrong-first-packet'), ('kexinit', ['type', 0], 'wrong-first-packet'),
                               ('kexinit', ['set_len', 7], 'bad-length'), ('kexinit', ['set_len', 0xffffffff], 'bad-length'), ('kexinit', ['set_pad', 255], 'bad-padding'), ('kexinit', ['trunc', 30, 'close'], 'close-inside-kexinit'), ('kexinit', ['trunc', 30, 'stall'], 'stall-inside-kexinit'),
                               ('kexinit', ['raw', 'Protocol mismatch.\n', 'close'], 'text-instead-of-kexinit')]:
            cases.append({'kind': 'broken', 'stage': stage, 'fault': [what, 0, f], 'opts': opts})
        for c in cuts:
            cases.append({'kind': 'broken', 'stage': 'kexinit-truncated-reframed', 'fault': ['kexinit', 0, ['reframe_trunc', c]], 'opts': opts})
        for i, o in enumerate(offs):
            for v in (0xffffffff, 0x7fffffff, len(kx) + 1, len(kx) * 2):
                cases.append({'kind': 'broken', 'stage': 'kexinit-list-length-too-large', 'fault': ['kexinit', 0, ['set_u32', o, v]], 'opts': opts})
        # SSH-1
        cases.append({'kind': 'broken', 'proto': 1, 'stage': 'ssh1-bad-crc', 'fault': ['none', 0, None], 'bad_crc': True, 'opts': opts})
        cases.append({'kind': 'broken', 'proto': 1, 'stage': 'ssh1-close-before-pkm', 'fault': ['pkm', 0, 'close'], 'opts': opts})
        cases.append({'kind': 'broken', 'proto': 1, 'stage': 'ssh1-pkm-truncated', 'fault': ['pkm', 0, ['trunc', 20, 'close']], 'opts': opts})
        # a public-key message with a valid checksum around a body that is cut short, empty or padded with junk; asked for with -1 and reached through the fallback
        for f in (['ssh1_trunc', 0], ['ssh1_trunc', 7], ['ssh1_trunc', 12], ['ssh1_trunc', 40], ['ssh1_trunc', 140], ['ssh1_body', ''], ['ssh1_body', '\x00' * 8], ['ssh1_set_u16', 12, 0xffff], ['ssh1_type', 3]):
            cases.append({'kind': 'broken', 'proto': 1, 'stage': 'ssh1-pkm-body-malformed', 'fault': ['pkm', 0, f], 'opts': opts})
            cases.append({'kind': 'broken', 'proto': 1, 'fallback': True, 'stage': 'ssh1-pkm-body-malformed-after-fallback', 'fault': ['pkm', 1, f], 'opts': opts})
    return cases


def run(ctx):
    n = 15000 if ctx.quick else 150000
    ctx.hyp('strat_rated', n, label=1)
    ctx.hyp('strat_unknown_mix', 3000 if ctx.quick else 30000, label=2)
    ctx.hyp('strat_rated_asym', 3000 if ctx.quick else 30000, label=9)
    ctx.hyp('strat_multi', 1500 if ctx.quick else 15000, label=10)
    ctx.hyp('strat_long_rated', 300 if ctx.quick else 3000, label=11)
    ctx.hyp('strat_empty_names', 3000 if ctx.quick else 30000, label=3)
    bc = broken_cases(False)     # every truncation offset in both tiers (cheap)
    ctx.map(bc)
    from ssh_audit.builtin_policies import BUILTIN_POLICIES
    pc = []
    names = sorted(BUILTIN_POLICIES)
    if ctx.quick:
        ctx.rng.shuffle(names)
        names = names[:10]
    for p in names:
        pc.append({'kind': 'policy', 'policy': p})
        for f, op in itertools.product(('kex', 'enc', 'mac', 'key'), ('drop', 'add', 'swap')):
            if not ctx.quick or ctx.rng.random() < 0.25:
                pc.append({'kind': 'policy', 'policy': p, 'drift': [f, op]})
    masks = [(c, a) for c in range(128) for a in range(0, 128, 2)]
    if ctx.quick:
        ctx.rng.shuffle(masks)
        masks = masks[:2500]
    s1 = [{'kind': 'ssh1rated', 'cmask': c, 'amask': a, 'opts': [['-n'], ['-n', '-j'], ['-n', '-b'], ['-n', '-l', 'fail'], ['-n', '-v'], ['-jj', '-l', 'warn']][i % 6], 'flag1': bool((i // 6) % 2)} for i, (c, a) in enumerate(masks)]
    ctx.map(s1)
    nv = []
    server_pols = [p for p in sorted(BUILTIN_POLICIES) if BUILTIN_POLICIES[p]['server_policy']]
    client_pols = [p for p in sorted(BUILTIN_POLICIES) if not BUILTIN_POLICIES[p]['server_policy']]
    bad_files = ['name = "x"\n', 'version = 1\n', 'name = "x"\nversion = 1\nfoo = bar\n', 'name = "x"\nversion = 1\njunk line\n', 'name = "x"\nversion = 1\nbanner = unquoted\n',
                 'name = "x"\nversion = 1\nhost_key_sizes = {bad json\n', 'name = "x"\nversion = 1\nhostkey_size_ssh-rsa = abc\n', '', '# only a comment\n']
    for js in (False, True):
        for p in (server_pols[:3] + server_pols[-2:]):
            nv.append({'kind': 'noverdict', 'why': 'server-policy-for-client-audit', 'role': 'client', 'policy': p, 'json': js})
        for p in client_pols[:3] + client_pols[-2:]:
            nv.append({'kind': 'noverdict', 'why': 'client-policy-for-server-audit', 'role': 'server', 'policy': p, 'json': js})
        for t in bad_files:
            for role in ('server', 'client'):
                nv.append({'kind': 'noverdict', 'why': 'policy-file-does-not-load', 'role': role, 'text': t, 'json': js})
        nv.append({'kind': 'noverdict', 'why': 'policy-file-does-not-load', 'role': 'server', 'policy': '/nonexistent/policy.txt', 'json': js})
        nv.append({'kind': 'noverdict', 'why': 'policy-file-does-not-load', 'role': 'server', 'policy': 'No Such Built-in Policy (version 9)', 'json': js})
    ctx.map(nv)
    ctx.map(pc)
    ctx.note(policy_audits_without_verdict=len(nv))
    ctx.note(broken_handshake_cases=len(bc), policy_cases=len(pc))
    return ctx.finish('exploration', 'Hypothesis peers mixing fail-rated / warn-only / clean / unknown / gss names in random order x 14 option sets x colour x role; handshakes broken at every stage (unresolvable, refused, timeout, silent, close/stall before/inside/after banner, garbage, wrong first packet, bad length/padding, KEXINIT truncated at every field boundary (thorough: every byte) and re-framed, oversized list lengths, SSH-1 bad CRC/truncation) x 6 option sets (two of them policy audits, which must then print no verdict); protocol-1 peers over the cipher / authentication masks x 6 option sets; built-in policy audits with and without drift; non-trivial = a lower-rated name after a failure-rated one, or a level/JSON option, or a broken stage, or a policy audit',
                      assumptions=['expected status is computed from the table classes of the advertised names (+ Terrapin context by the published rule, unknown names count as warnings), no probe answered'])

"""C16 — identification strings are recognised, decomposed and sanitised correctly.

Function level (Banner.parse / Software.parse on strings from the banner grammar) and CLI level
(the scripted server sends header lines + banner, whole or split into TCP segments)."""
import json
import re

from hypothesis import strategies as st

from vlib import fakenet, drive, report
from vlib.runner import mkres, tool_exception_sig

ID = 'C16'
PRINTABLE_NOSPACE = ''.join(chr(c) for c in range(33, 127))
PRINTABLE = ''.join(chr(c) for c in range(32, 127))

# product families: software-string format -> (product, vendor)
FAMILIES = [
    ('OpenSSH_%s', 'OpenSSH'), ('OpenSSH-%s', 'OpenSSH'), ('dropbear_%s', 'Dropbear SSH'), ('libssh-%s', 'libssh'), ('libssh_%s', 'libssh'),
    ('RomSShell_%s', 'RomSShell'), ('mpSSH_%s', 'iLO (Integrated Lights-Out) sshd'), ('Cisco-%s', 'IOS/PIX sshd'), ('tinyssh_%s', 'TinySSH'), ('PuTTY_Release_%s', 'PuTTY'),
]


def ref_parts(line):
    """Reference decomposition of a grammar-conforming banner line (no terminator)."""
    m = re.match(r'^SSH-(\d)\.(\d+)-([^ ]*)(?: +(.*))?$', line)
    if not m:
        return None
    maj, mino, sw, com = m.groups()
    com = re.sub(r' +', ' ', com.strip()) if com is not None and com.strip() else None
    return (int(maj), int(mino)), sw, com


def sanitize(s):
    return ''.join(c if 32 <= ord(c) <= 126 else '?' for c in s)


def eval_case(case):
    try:
        return _eval(case)
    except Exception as e:
        sig = tool_exception_sig(e)
        if sig is None:
            raise
        return mkres(case, nt=True, classes=[case['kind']], fails=[[sig, '%r on %r' % (e, case)]])


def _eval(case):
    from ssh_audit.banner import Banner
    from ssh_audit.software import Software
    k = case['kind']
    fails = []
    if k == 'fuzz':
        from vlib import fuzzrun
        return fuzzrun.eval_fuzz_case(case)
    if k == 'parse':
        line = case['line']
        clean = sanitize(line)
        want = ref_parts(clean)
        b = Banner.parse(line)
        dirty = clean != line
        nt = dirty or (want is not None and want[2] is not None)
        if want is None:
            raise ValueError('generator produced a non-conforming line %r' % line)
        if b is None:
            fails.append(['grammar-line-rejected', repr(line)])
            return mkres(case, nt=nt, classes=['parse'], fails=fails)
        got = (tuple(b.protocol), b.software, b.comments)
        if got != want:
            which = 'protocol' if got[0] != want[0] else ('software' if got[1] != want[1] else 'comments')
            fails.append(['parts-%s' % which, '%r -> %r, expected %r' % (line, got, want)])
        if b.valid_ascii == dirty:
            fails.append(['non-conforming-flag', '%r: valid_ascii=%r' % (line, b.valid_ascii)])
        if any(not (32 <= ord(c) <= 126) for c in str(b)):
            fails.append(['unsanitised-character-shown', repr(str(b))])
        b2 = Banner.parse(str(b))
        if b2 is None or (tuple(b2.protocol), b2.software, b2.comments) != got:
            fails.append(['render-parse-roundtrip', '%r -> %r -> %r' % (line, str(b), b2)])
        return mkres(case, nt=nt, classes=['parse'] + (['dirty'] if dirty else []) + (['comments'] if want[2] else []), fails=fails)
    if k == 'multi':
        # documented multi-version form: the lowest protocol is the peer's
        line = case['line']
        b = Banner.parse(line)
        want = min(tuple(map(int, v.split('.'))) for v in case['versions'])
        if b is None or tuple(b.protocol) != want:
            fails.append(['multi-version-lowest-protocol', '%r -> %r, expected %r' % (line, b, want)])
        return mkres(case, nt=True, classes=['multi'], fails=fails)
    if k == 'product':
        sw = case['fmt'] % (case['version'] + case['patch'])
        line = 'SSH-2.0-' + sw + (' ' + case['comments'] if case.get('comments') else '')
        if case.get('dirty'):
            # a byte outside printable ASCII somewhere in the comments: the line is flagged, the product is still the product
            com = case.get('comments') or 'build'
            pos = case['dirty'][0] % (len(com) + 1)
            line = 'SSH-2.0-' + sw + ' ' + com[:pos] + case['dirty'][1] + com[pos:]
        b = Banner.parse(line)
        s = Software.parse(b) if b is not None else None
        if case.get('cli'):
            # the same through the whole program: '(gen) software:' names product and version
            net = fakenet.FakeNet()
            net.add('h', 22, fakenet.Server({'banner': line.encode('utf-8').decode('latin-1')}))
            r = drive.run_cli(['-n', '--skip-rate-test', 'h'], net)
            tr = report.TextReport(r.out)
            shown = (tr.gen.get('software') or [None])[0]
            if r.exc or r.code not in (0, 2, 3):
                fails.append([drive.crash_sig(r) if r.exc else 'banner-not-recognised', r.brief()])
            elif shown is None or case['version'] not in shown or case['product'].split(' ')[0] not in shown:
                fails.append(['cli-software-line', '%r -> (gen) software: %r, expected %s %s' % (line, shown, case['product'], case['version'])])
        if s is None:
            fails.append(['product-not-recognised', repr(line)])
        else:
            if s.product != case['product']:
                fails.append(['product-name', '%r -> %r, expected %r' % (line, s.product, case['product'])])
            if s.version != case['version']:
                if not (case['product'] in ('TinySSH', 'PuTTY') and s.version == case['version'] + case['patch']):
                    fails.append(['product-version', '%r -> version %r, expected %r' % (line, s.version, case['version'])])
            if case['patch'] and case['product'] in ('OpenSSH', 'Dropbear SSH', 'libssh', 'RomSShell'):
                if (s.patch or '') != case['patch'].lstrip('-_.'):
                    fails.append(['product-patch', '%r -> patch %r, expected %r' % (line, s.patch, case['patch'])])
        return mkres(case, nt=True, classes=['product', case['product']] + (['dirty-comments'] if case.get('dirty') else []) + (['cli'] if case.get('cli') else []), fails=fails)
    if k == 'cli':
        header = case['header']
        line = case['line']
        eol = case['eol']
        pre = ''.join(h + eol for h in header)
        spec = {'banner': line, 'eol': eol, 'pre': pre}
        seen = line.encode('latin-1').decode('utf-8', 'replace')
        clean = sanitize(seen)
        want = ref_parts(clean)
        for js in (False, True):
            net = fakenet.FakeNet(segment=case.get('segment', 0), eagain_every=case.get('eagain', 0))
            if case.get('role') == 'client':
                net.pending_clients.append(fakenet.Server(spec))
                r = drive.run_cli(['-n'] + (['-j'] if js else []) + ['-c'], net)
            else:
                net.add('h', 22, fakenet.Server(spec))
                r = drive.run_cli(['-n'] + (['-j'] if js else []) + ['--skip-rate-test', 'h'], net)
            seg = case.get('segment', 0)
            tag = ('-split-delivery' if seg else '') + ('-client-audit' if case.get('role') == 'client' else '')
            if r.exc or r.hang:
                fails.append([(drive.crash_sig(r) if r.exc else 'hang') + tag, r.brief()])
                continue
            if r.code not in (0, 2, 3):
                fails.append(['banner-not-recognised' + tag, 'header %r line %r segment %r: exit %d %r' % (header, line, seg, r.code, r.out[-200:])])
                continue
            shown = 'SSH-%d.%d-%s%s' % (want[0][0], want[0][1], want[1], (' ' + want[2]) if want[2] else '')
            if js:
                doc = json.loads(r.out)
                bj = doc['banner']
                got = (bj['protocol'], bj['software'], bj['comments'], bj['raw'])
                exp = ('%d.%d' % want[0], want[1], want[2], shown)
                if got != exp:
                    fails.append(['cli-banner-json' + tag, '%r vs %r' % (got, exp)])
            else:
                tr = report.TextReport(r.out)
                gb = (tr.gen.get('banner') or [None])[0]
                if gb != shown:
                    fails.append(['cli-banner-text' + tag, '%r vs %r' % (gb, shown)])
                # header lines: every one, in order, none mistaken for the banner
                hdr_shown = []
                lines = r.out.split('\n')
                for i, l in enumerate(lines):
                    if l.startswith('(gen) header: '):
                        hdr_shown = [l[len('(gen) header: '):]]
                        j = i + 1
                        while j < len(lines) and not lines[j].startswith('(gen) '):
                            hdr_shown.append(lines[j])
                            j += 1
                want_hdr = [h.rstrip().encode('latin-1').decode('utf-8', 'replace') for h in header if h.strip()]
                if hdr_shown != want_hdr:
                    fails.append(['cli-header-lines' + tag, 'shown %r, sent %r' % (hdr_shown, want_hdr)])
                if clean != seen and not any('non-printable' in x for x in tr.gen.get('banner contains non-printable ASCII', []) + [l for l in lines if 'non-printable' in l]):
                    fails.append(['cli-non-conforming-flag' + tag, repr(line)])
        nt = bool(header) or want[2] is not None or clean != seen or bool(case.get('segment'))
        return mkres(case, nt=nt, classes=['cli'] + (['reads-interrupted-by-EAGAIN'] if case.get('eagain') else []) + ['role:' + case.get('role', 'server'), 'headers:%d' % min(len(header), 4), 'segment:%s' % case.get('segment', 0), 'eol:' + repr(eol)], fails=fails)
    raise ValueError(k)


# ------------------------------------------------------------------------------- generators

def software_st():
    plain = st.text(alphabet=PRINTABLE_NOSPACE, min_size=0, max_size=30)
    # protocol-like text *inside* a token is ordinary text (only a token that starts with it is the multi-version form)
    inner = st.tuples(st.text(alphabet='abcdefghijklmnopqrstuvwxyz_(', min_size=1, max_size=6), st.sampled_from(['SSH-1.5', 'SSH-1.3', 'SSH-0.1', 'SSH-3.0']), st.text(alphabet=')_xyz0123456789', max_size=4)).map(lambda t: t[0] + t[1] + t[2])
    # the prefix is upper case: 'ssh-1.5-bridge' is an ordinary software token
    lower = st.tuples(st.sampled_from(['ssh-1.5', 'Ssh-2.0', 'sSH-1.99', 'ssh-2.0', 'ssH-1.3']), st.sampled_from(['-bridge', '-relay_2', '', '-x'])).map(lambda t: t[0] + t[1])
    return st.one_of(plain, plain, plain, inner, lower).filter(lambda s: not re.match(r'^SSH-\d\.', s) and not re.match(r'^\d*\s*-?SSH-\d', s))


def comments_st():
    word = st.one_of(st.text(alphabet=PRINTABLE_NOSPACE, min_size=1, max_size=10), st.text(alphabet=PRINTABLE_NOSPACE, min_size=1, max_size=10), st.sampled_from(['SSH-1.5', '(SSH-1.3)', 'SSH-1.99-compatible', 'was:SSH-0.9', 'SSH-9.9']))
    return st.lists(st.tuples(word, st.sampled_from([' ', ' ', '  ', '    '])), min_size=1, max_size=4).map(lambda l: ''.join(w + s for w, s in l).rstrip(' ') + '')


def proto_st():
    return st.one_of(st.sampled_from(['2.0', '1.99', '1.5', '2.0', '2.0']), st.tuples(st.sampled_from([1, 2]), st.integers(0, 99)).map(lambda t: '%d.%d' % t))


def line_st(dirty=True):
    def build(t):
        proto, sw, com, inj = t
        line = 'SSH-%s-%s' % (proto, sw)
        if com is not None and sw != '':       # an empty software token followed by comments is not a form the grammar gives meaning to
            line += ' ' + com
        if inj is not None and dirty:
            pos, ch = inj
            # inject into the software or comments part only (the protocol part is matched literally)
            base = len('SSH-%s-' % proto)
            p = base + pos % (len(line) - base + 1)
            if pos % 4 == 0:
                p = len(line)                  # often at the very end of the line
            line = line[:p] + ch + line[p:]
        if line.endswith('\t'):               # trailing blanks belong to the line terminator, which the reader trims
            line = line[:-1]
        return line
    inj = st.one_of(st.none(), st.none(), st.tuples(st.integers(0, 60), st.sampled_from(['\x00', '\x01', '\x07', '\x1b', '\x7f', '\x80', '\xe9', '\xff', '\t', '\x1c', '\x1f', '\xc2\x85', '\xc2\xa0', '\xe2\x80\xa8', '\xc3\xa9', '\xf0\x9f\x98\x80', '\xf0\x90\x80\x80', '\xf4\x8f\xbf\xbf', '\xef\xbf\xbd', '\xef\xbb\xbf'])))
    return st.tuples(proto_st(), software_st(), st.one_of(st.none(), comments_st()), inj).map(build)


def strat_parse():
    # chars travel as latin-1; the tool sees them after utf-8 'replace' decoding, so use the decoded form at function level
    return line_st().map(lambda l: {'kind': 'parse', 'line': l.encode('latin-1').decode('utf-8', 'replace') if any(ord(c) >= 0x80 for c in l) else l})


def strat_product():
    ver = st.lists(st.integers(0, 2024), min_size=2, max_size=3).map(lambda l: '.'.join(map(str, l)))
    def build(t):
        (fmt, product), v, patch, com, dirty, cli = t
        if product in ('TinySSH', 'PuTTY', 'iLO (Integrated Lights-Out) sshd', 'IOS/PIX sshd'):
            patch = ''
        if product == 'OpenSSH':
            patch = patch if patch in ('', 'p1', 'p2') else ''
        elif patch in ('p1', 'p2'):
            patch = ''
        c = {'kind': 'product', 'fmt': fmt, 'product': product, 'version': v, 'patch': patch, 'comments': com}
        if dirty is not None:
            c['dirty'] = list(dirty)
        if cli:
            c['cli'] = True
        return c
    return st.tuples(st.sampled_from(FAMILIES), ver, st.sampled_from(['', '', 'p1', 'p2', 'test1', '-beta', '_rc2']), st.one_of(st.none(), st.sampled_from(['Debian-5', 'FreeBSD-20200214', 'Ubuntu-3ubuntu0.1', 'NetBSD_Secure_Shell-20110907'])),
                     st.one_of(st.none(), st.none(), st.tuples(st.integers(0, 30), st.sampled_from(['\x01', '\x7f', '\x1b', '\xe9', '\u2028', '\x00', '\ufffd']))), st.sampled_from([False, False, False, True])).map(build)


def strat_cli():
    # header lines are shown verbatim, so a line that imitates the report's own '(xxx) ' prefixes cannot be told apart by any reader of the report
    hdr = st.text(alphabet=PRINTABLE, min_size=1, max_size=40).filter(lambda s: s.strip() != '' and not re.match(r'^\s*SSH-\d\.', s) and s == s.rstrip() and not re.match(r'^\s*[(#]', s))
    # an identification string starts at the first byte of its line: indented look-alikes are header text
    indented = st.tuples(st.sampled_from([' ', '  ', '    ']), st.sampled_from(['SSH-2.0-Gateway_1.0 connections are logged', 'SSH-2.0-OpenSSH_8.0', 'SSH-1.99-dropbear_2020.81', 'SSH-1.5-x', 'SSH-2.0-'])).map(lambda t: t[0] + t[1])
    lowercase = st.sampled_from(['ssh-2.0-compatible relay, connections are logged', 'Ssh-2.0-Gateway', 'sSH-1.99-x y', 'ssh-1.5-old', 'ssh-2.0-', 'SSh-2.0-OpenSSH_8.0'])      # only 'SSH-' in upper case starts an identification string
    # lines with bytes outside printable ASCII: made of nothing else (telnet negotiation, bells, shift codes), or led by them
    # (a byte-order mark in front of ordinary text or of a look-alike); none of these bytes is white space
    odd = st.sampled_from(['\x00', '\x01', '\x07', '\x1b', '\x7f', '\xff\xfb\x01', '\xff\xfd\x18', '\x0e', '\x0f', '\xc3\xa9', '\xef\xbb\xbf', '\xe2\x82\xac', '\xfe\xff'])
    only_odd = st.lists(st.one_of(odd, odd, st.just(' ')), min_size=1, max_size=5).map(''.join).filter(lambda s: s.strip() != '' and s == s.strip())
    led_odd = st.tuples(odd, st.sampled_from(['Welcome', 'SSH-2.0-OpenSSH_8.0', 'SSH-2.0-fake_1.0 x', 'SSH-1.5-old', 'x', 'SSH-2.0-']), st.one_of(st.just(''), odd)).map(lambda t: t[0] + t[1] + t[2])
    hdr = st.one_of(hdr, hdr, hdr, indented, lowercase, only_odd, led_odd)

    def build(t):
        line, headers, eol, seg, role = t
        c = {'kind': 'cli', 'line': line, 'header': headers, 'eol': eol, 'segment': seg, 'role': role}
        if seg and (len(line) + len(headers)) % 3 == 0:
            c['eagain'] = 2 + len(line) % 3          # now and then a read reports EAGAIN between two segments
        return c
    return st.tuples(line_st(), st.lists(hdr, min_size=0, max_size=4), st.sampled_from(['\r\n', '\n']), st.sampled_from([0, 0, 0, 1, 2, 7, 64]), st.sampled_from(['server', 'server', 'client'])).map(build)


def valid_case(case):
    return True


NO_SHRINK_KEYS = ('versions',)


def run(ctx):
    q = ctx.quick
    ctx.hyp('strat_parse', 20000 if q else 400000, label=1)
    ctx.hyp('strat_product', 3000 if q else 40000, label=2)
    multi = []
    for a, b in [('1.99', '2.0'), ('2.0', '1.99'), ('1.5', '2.0'), ('2.0', '2.0'), ('1.5', '1.99'), ('2.0', '1.5')]:
        multi.append({'kind': 'multi', 'line': 'SSH-%s-SSH-%s-OpenSSH_8.0' % (a, b), 'versions': [a, b]})
    ctx.map(multi)
    ctx.hyp('strat_cli', 10000 if q else 150000, label=3)
    # deterministic split-delivery grid: one banner with headers at every segment size
    grid = []
    for seg in [0] + list(range(1, 41)):
        for eol in ('\r\n', '\n'):
            grid.append({'kind': 'cli', 'line': 'SSH-2.0-OpenSSH_8.9p1 Ubuntu-3ubuntu0.1', 'header': ['Welcome to host', '* authorised use only *'], 'eol': eol, 'segment': seg})
            grid.append({'kind': 'cli', 'line': 'SSH-1.99-dropbear_2020.81', 'header': [], 'eol': eol, 'segment': seg})
    # very long lines: header text and comments of several kilobytes, whole and in segments
    for n in (1000, 4095, 4096, 4097, 8192, 12000) if not q else (4095, 4097, 12000):
        for seg in (0, 64, 1460):
            grid.append({'kind': 'cli', 'line': 'SSH-2.0-OpenSSH_8.9p1 Ubuntu-3ubuntu0.1', 'header': ['*' * n], 'eol': '\r\n', 'segment': seg})
            grid.append({'kind': 'cli', 'line': 'SSH-2.0-OpenSSH_8.9p1 Ubuntu-3ubuntu0.1', 'header': ['notice', 'x' * n + ' end', 'SSH is monitored'], 'eol': '\n', 'segment': seg})
            grid.append({'kind': 'cli', 'line': 'SSH-2.0-Server_1.0 ' + 'c' * n, 'header': [], 'eol': '\r\n', 'segment': seg})
            grid.append({'kind': 'cli', 'line': 'SSH-2.0-' + 's' * n, 'header': ['hello'], 'eol': '\n', 'segment': seg})
    for seg in (1, 2, 5, 7, 11, 19):
        for k in (2, 3, 4):
            grid.append({'kind': 'cli', 'line': 'SSH-2.0-OpenSSH_8.9p1 Ubuntu-3ubuntu0.1', 'header': ['Welcome to host', '* authorised use only *'], 'eol': '\r\n', 'segment': seg, 'eagain': k})
            grid.append({'kind': 'cli', 'line': 'SSH-1.99-dropbear_2020.81', 'header': [], 'eol': '\n', 'segment': seg, 'eagain': k, 'role': 'client'})
    # a notice of a few dozen lines in front of the identification string, delivered byte by byte (thousands of reads)
    for eol in ('\r\n', '\n'):
        for seg in (0, 1, 3):
            for h in (['\xff\xfb\x01\xff\xfd\x18'], ['\x07\x07'], ['\x1b\x0e \x0f'], ['hello', '\x00', 'world'], ['\xef\xbb\xbfSSH-2.0-fake_1.0'], ['\xef\xbb\xbfWelcome'], ['\xef\xbb\xbf', 'a'], ['a\xef\xbb\xbfb']):
                grid.append({'kind': 'cli', 'line': 'SSH-2.0-OpenSSH_8.9p1 Ubuntu-3ubuntu0.1', 'header': h, 'eol': eol, 'segment': seg})
                grid.append({'kind': 'cli', 'line': 'SSH-1.99-dropbear_2020.81', 'header': h, 'eol': eol, 'segment': seg, 'role': 'client'})
    notice = ['* line %02d of the notice: authorised use only, sessions are recorded *' % i for i in range(30)]
    for seg in (1, 2, 3):
        for eol in ('\r\n', '\n'):
            grid.append({'kind': 'cli', 'line': 'SSH-2.0-OpenSSH_8.9p1 Ubuntu-3ubuntu0.1', 'header': notice, 'eol': eol, 'segment': seg})
            grid.append({'kind': 'cli', 'line': 'SSH-2.0-OpenSSH_8.9p1 Ubuntu-3ubuntu0.1', 'header': notice[:12], 'eol': eol, 'segment': seg, 'role': 'client'})
    ctx.map(grid)
    if not q:
        from vlib import fuzzrun
        fuzzrun.run_into(ctx, 'c16_banner', runs=300000, shards=8, seeds_corpus=[b'SSH-2.0-OpenSSH_8.9p1 Ubuntu-3', b'SSH-1.99-dropbear_2020.81 x  y', b'SSH-2.0-libssh-0.10.6'], max_len=256)
    return ctx.finish('exploration', 'banner lines from the grammar SSH-<1.x|2.x|1.99>-<software>[ <comments>] (software over printable ASCII without space, comments with single/multiple spaces, injected control / non-ASCII bytes), product strings of every known family at generated versions and patch levels, the multi-version form; CLI: 0-4 header lines (printable text, indented / lower-case look-alikes, lines made only of bytes outside printable ASCII, lines led by such bytes incl. a byte-order mark) + banner, CR LF / LF, delivered whole or in segments of 1, 2, 7, 64 bytes (and every size 1..40 for two fixed banners); non-trivial = header lines, comments, substituted bytes or split delivery',
                      assumptions=['banner separators are spaces (TAB is not printable ASCII and is substituted)', 'software tokens starting SSH-d.d are the documented multi-version form and are tested separately', 'header lines are shown unsanitised by design (observation, not checked)'])

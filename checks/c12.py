"""C12 — group-exchange modulus size is measured and rated correctly.

Domain: every moduli policy over the nine stated sizes x selection style x offered GEX algorithms
x banner (9 216 servers, exhaustive in the thorough tier), an extension to sizes that do not
coincide with the probe list, and a fault family (refuse / stall / garbage in the GEX phase).
Oracle: reference model computed from the server's policy and the documented probe sequence,
never from the tool's output; the server's own log of handed-out groups is a second witness.
"""
import itertools
import json
import re

from vlib import fakenet, drive, report
from vlib.runner import mkres

ID = 'C12'
SIZES = [512, 768, 1024, 1536, 2048, 3072, 4096, 6144, 8192]
PROBES = [(512, 1024, 1536)] + [(b, b, b) for b in (512, 768, 1024, 1536, 2048, 3072, 4096)]
SECOND = (2048, 3072, 4096)
SHA1, SHA256 = 'diffie-hellman-group-exchange-sha1', 'diffie-hellman-group-exchange-sha256'
ALGSETS = {'sha256': [SHA256], 'sha1': [SHA1], 'both': [SHA1, SHA256]}
BANNERS = {'openssh': 'SSH-2.0-OpenSSH_8.0', 'dropbear': 'SSH-2.0-dropbear_2020.81',
           # other ways an OpenSSH server introduces itself
           'openssh-win': 'SSH-2.0-OpenSSH_for_Windows_8.1', 'openssh-deb': 'SSH-2.0-OpenSSH_9.2p1 Debian-2+deb12u3', 'openssh-199': 'SSH-1.99-OpenSSH_3.9p1', 'openssh-10': 'SSH-2.0-OpenSSH_10.0', 'openssh-bare': 'SSH-2.0-OpenSSH',
           'libssh': 'SSH-2.0-libssh_0.10.6', 'unknown': 'SSH-2.0-Custom_Server_1.0'}
SMALL = re.compile(r'using small (\d+)-bit modulus')
W2048 = '2048-bit modulus only provides 112-bits of symmetric strength'
FALLBACK = re.compile(r"GEX fallback mechanism was triggered.*modern clients will use (\d+)\.")


def ref_expected(moduli, style, openssh):
    """Returns (set of acceptable reported sizes (None = no size), fallback_note_size or None)."""
    srv = fakenet.Server(moduli=list(moduli), gex_style=style)
    handed = [srv.choose_modulus(*p) for p in PROBES]
    handed = [h for h in handed if h is not None]
    if not handed:
        return {None}, None
    m = min(handed)
    if openssh and m == 2048:
        s = srv.choose_modulus(*SECOND)
        if s is None:
            return {None, 2048}, None
        return {s}, (s if s != 2048 else None)
    return {m}, None


def simulate_with_lost_probe(moduli, style, openssh, lost):
    """The documented probe loop against the server model when the probe number `lost` (0 = the 512/1024/1536 one,
    1..7 = the fixed sizes, 8 = the OpenSSH follow-up) gets no answer.  Returns the set of acceptable reported sizes."""
    srv = fakenet.Server(moduli=list(moduli), gex_style=style)
    first = None if lost == 0 else srv.choose_modulus(*PROBES[0])
    out = set()
    if lost == 0:
        out.add(None)           # a failed re-connection before the first probe ends the measurement of this algorithm
    smallest = first or 0
    for j, bits in enumerate((512, 768, 1024, 1536, 2048, 3072, 4096), start=1):
        if bits >= smallest > 0:
            break
        ans = None if lost == j else srv.choose_modulus(bits, bits, bits)
        if ans and (smallest <= 0 or ans < smallest):
            smallest = ans
    if smallest == 2048 and openssh:
        s2 = None if lost == 8 else srv.choose_modulus(*SECOND)
        out |= {None, 2048} if s2 is None else {s2}
    else:
        out.add(smallest if smallest > 0 else None)
    return out


def make_cases_lostprobe():
    """One connection of the group-exchange phase fails (any way a connection can fail); the probing must go on."""
    fl = [['connect', 'close'], ['connect', 'stall'], ['connect', 'refuse'], ['connect', 'timeout'], ['banner', 'close'], ['kexinit', 'close'], ['kexinit', 'stall'], ['gex_group', 'close'], ['gex_group', 'stall'], ['gex_group', 'reset'],
          ['gex_group', ['reframe_trunc', 69]], ['gex_group', ['reframe_trunc', 133]], ['gex_group', ['set_u32', 1, 4096]], ['gex_group', ['disconnect', 12]],
          ['gex_group', ['raw', DEBUG_PKT, 'close']], ['gex_group', ['raw', DEBUG_PKT, 'stall']]]
    for moduli in ([768, 2048], [1024, 3072], [1536, 4096], [768, 1024, 4096], [2048, 3072], [512, 8192], [1024], [3072]):
        for style in ('prefup', 'roundup', 'strict', 'openssh'):
            for what, f in fl:
                for idx in range(2, 10):
                    for banner in ('openssh', 'dropbear'):
                        yield {'moduli': moduli, 'style': style, 'algs': 'sha256', 'banner': banner, 'family': 'lostprobe', 'fault': [what, idx, f], 'renderings': ['json'], 'lenient': idx % 2 == 1}


def make_cases_stated():
    for mask in range(512):
        for style in ('strict', 'roundup', 'openssh'):
            for algs in ('sha256', 'sha1', 'both'):
                for banner in ('openssh', 'dropbear'):
                    yield {'moduli': [s for i, s in enumerate(SIZES) if mask >> i & 1], 'style': style, 'algs': algs, 'banner': banner, 'family': 'stated'}


NEAR = [1023, 1025, 2040, 2047, 2049, 2056, 3064, 3071, 3073, 3080, 4095]


def make_cases_peralg():
    """Both algorithms offered, each with its own moduli (a server may well keep separate groups)."""
    sets = [[2048], [3072], [4096], [2048, 3072], [2048, 4096], [1024, 2048], [], [8192], [1536, 6144]]
    for a in sets:
        for b in sets:
            if a == b:
                continue
            for style in ('strict', 'roundup', 'openssh'):
                for banner in ('openssh', 'dropbear'):
                    yield {'moduli': a, 'moduli256': b, 'style': style, 'algs': 'both', 'banner': banner, 'family': 'peralg'}


def make_cases_banners():
    for b in BANNERS:
        for moduli in ([], [3072], [4096], [2048], [2048, 4096], [1024, 3072], [6144]):
            for style in ('openssh', 'roundup'):
                for algs in ('sha256', 'both'):
                    yield {'moduli': moduli, 'style': style, 'algs': algs, 'banner': b, 'family': 'stated'}


def make_cases_extension():
    # sizes next to the rating thresholds and not multiples of 8 (real moduli files hold 2047/3071-bit entries)
    for a in NEAR:
        for banner in ('openssh', 'dropbear'):
            yield {'moduli': [a], 'style': 'roundup', 'algs': 'sha256', 'banner': banner, 'family': 'extension'}
            yield {'moduli': [a, 8192], 'style': 'roundup', 'algs': 'both', 'banner': banner, 'family': 'extension'}
    for combo in itertools.combinations(SIZES, 2):
        for banner in ('openssh', 'dropbear'):
            yield {'moduli': list(combo), 'style': 'prefup', 'algs': 'both', 'banner': banner, 'family': 'extension'}
    grid = list(range(512, 8193, 256))
    for k in (1, 2, 3):
        for combo in itertools.combinations(grid, k):
            for style in ('strict', 'roundup'):
                yield {'moduli': list(combo), 'style': style, 'algs': 'sha256', 'banner': 'dropbear', 'family': 'extension'}


DEBUG_PKT = fakenet.wire.pkt(b'\x04\x01' + fakenet.wire.sstr(b'no matching group') + fakenet.wire.sstr(b'en')).decode('latin-1')
FAULTS = [
    ['gex_group', 'close'], ['gex_group', 'stall'], ['gex_reply', 'close'], ['gex_reply', 'stall'],
    ['gex_group', ['type', 33]], ['gex_group', ['type', 20]], ['gex_group', ['payload', '\x1f\x00\x00']],
    ['gex_group', ['reframe_trunc', 3]], ['gex_group', ['payload', '\x1f' + '\x00\x00\x00\x00' * 2]],
    ['gex_reply', ['type', 99]], ['gex_reply', ['payload', '\x21\xff\xff\xff\xff']],
    ['kexinit', 'close'], ['banner', 'close'], ['connect', 'close'],
    # a group message that ends inside its modulus / announces more modulus bytes than it carries / has no generator
    ['gex_group', ['reframe_trunc', 5]], ['gex_group', ['reframe_trunc', 6]], ['gex_group', ['reframe_trunc', 37]], ['gex_group', ['reframe_trunc', 69]], ['gex_group', ['reframe_trunc', 133]], ['gex_group', ['reframe_trunc', 261]],
    ['gex_group', ['set_u32', 1, 4096]], ['gex_group', ['set_u32', 1, 0x7fffffff]], ['gex_group', ['set_u32', 1, 1]], ['gex_group', ['disconnect', 12]], ['kexinit', ['disconnect', 2]],
    # a refusal announced by a debug message: the message, then the connection is closed / left silent
    ['gex_group', ['raw', DEBUG_PKT, 'close']], ['gex_group', ['raw', DEBUG_PKT, 'stall']], ['gex_group', ['raw', DEBUG_PKT * 3, 'close']], ['gex_reply', ['raw', DEBUG_PKT, 'close']],
]


def make_cases_chatty():
    """Servers that send debug messages in front of their group-exchange messages (as some announce their choice of
    group): the groups handed out are the same, so is what must be reported."""
    i = 0
    for moduli in ([1024], [2048], [3072], [1024, 4096], [2048, 3072], [512, 768, 8192], [1536, 2048, 6144], []):
        for style in ('strict', 'roundup', 'openssh', 'prefup'):
            for banner in ('openssh', 'dropbear'):
                for chatter in ({'gex_group': 1}, {'gex_group': 3}, {'gex_reply': 2}, {'gex_group': 1, 'gex_reply': 1}, {'kexdh_reply': 2, 'gex_group': 2}, {'gex_group': 40}):
                    i += 1
                    yield {'moduli': moduli, 'style': style, 'algs': ('sha256', 'both', 'sha1')[i % 3], 'banner': banner, 'family': 'extension' if style == 'prefup' else 'stated', 'chatter': chatter}


def make_cases_faults():
    for moduli in ([1024], [2048], [1024, 4096], [2048, 3072], [4096]):
        for style in ('strict', 'openssh'):
            for what, f in FAULTS:
                for idx in (1, 2, 3, '*', '2+', '4+'):
                    for banner in ('openssh', 'dropbear'):
                        yield {'moduli': moduli, 'style': style, 'algs': 'sha256', 'banner': banner, 'family': 'fault', 'fault': [what, idx, f], 'lenient': banner == 'dropbear'}


def _sizes_and_notes_json(doc):
    res = {}
    for e in doc.get('kex', []):
        if e['algorithm'] in (SHA1, SHA256):
            res[e['algorithm']] = (e.get('keysize'), e.get('notes', {}))
    return res


def _check_notes(alg, size, notes, fallback_size, fails, tag):
    allnotes = [(sev, t) for sev in ('fail', 'warn', 'info') for t in notes.get(sev, [])]
    small = [(sev, int(SMALL.search(t).group(1))) for sev, t in allnotes if SMALL.search(t)]
    w2048 = [sev for sev, t in allnotes if t == W2048]
    fb = [(sev, int(FALLBACK.search(t).group(1))) for sev, t in allnotes if FALLBACK.search(t)]
    exp_small = [('fail', size)] if size is not None and size < 2048 else []
    exp_w = ['warn'] if size is not None and 2048 <= size < 3072 else []
    if small != exp_small:
        fails.append(['rating-small-modulus', '%s %s: size=%r small-notes=%r expected=%r' % (tag, alg, size, small, exp_small)])
    if w2048 != exp_w:
        fails.append(['rating-2048-warning', '%s %s: size=%r 2048-warnings=%r expected=%r' % (tag, alg, size, w2048, exp_w)])
    exp_fb = [('info', fallback_size)] if fallback_size is not None and size == fallback_size else []
    if fb != exp_fb:
        fails.append(['fallback-note', '%s %s: size=%r fallback-notes=%r expected=%r' % (tag, alg, size, fb, exp_fb)])
    # measuring a modulus of 2048 bits or more (or none at all) adds size notes; it takes nothing away from what the table says about the algorithm
    from ssh_audit.ssh2_kexdb import SSH2_KexDB
    entry = SSH2_KexDB.MASTER_DB['kex'][alg]
    if size is None or size >= 2048:
        for i, sev in ((1, 'fail'), (2, 'warn')):
            lost = [t for t in (entry[i] if len(entry) > i else []) if t not in notes.get(sev, [])]
            if lost:
                fails.append(['table-rating-lost-after-measurement', '%s %s: size=%r, the table %s note %r is gone (shown: %r)' % (tag, alg, size, sev, lost, notes.get(sev, []))])


def eval_seq(case):
    """Several group-exchange servers in one invocation: each one's size and size notes follow from its own groups."""
    import os
    net = fakenet.FakeNet()
    members = case['members']
    for i, m in enumerate(members):
        algs = ALGSETS[m['algs']]
        kex = (algs + ['curve25519-sha256']) if m.get('gex_first') else (['curve25519-sha256'] + algs)
        net.add('s%d' % i, 22, fakenet.Server({'banner': BANNERS[m['banner']], 'kex': kex, 'key': m.get('key', ['ssh-ed25519']), 'hostkeys': {'ssh-ed25519': {'t': 'ed25519'}, 'ssh-rsa': {'t': 'rsa', 'bits': 3072}}, 'moduli': m['moduli'], 'gex_style': m['style'], 'faults': m.get('faults', [])}))
    tf = drive.tmpfile(''.join('s%d\n' % i for i in range(len(members))))
    try:
        r = drive.run_cli(['-n', '-j', '--skip-rate-test', '--threads', str(case.get('threads', 1)), '-T', tf], net)
    finally:
        os.unlink(tf)
    fails = []
    if r.exc or r.hang or r.code not in (0, 2, 3):
        return mkres(case, nt=True, classes=['seq', 'crashed'], fails=[[drive.crash_sig(r) if r.exc else 'no-report', r.brief()]])
    docs = {d['target'].split(':')[0]: d for d in json.loads(r.out) if isinstance(d, dict) and 'target' in d}
    for i, m in enumerate(members):
        got = _sizes_and_notes_json(docs.get('s%d' % i, {}))
        want, fb = ref_expected(m['moduli'], m['style'], m['banner'].startswith('openssh'))
        if m.get('faults'):
            want = {None}          # this member refuses every group-exchange request: no size
        for alg in ALGSETS[m['algs']]:
            if alg not in got:
                fails.append(['gex-alg-missing-from-report', 'server %d of %d: %s' % (i + 1, len(members), alg)])
                continue
            size, notes = got[alg]
            tag = 'server %d of %r' % (i + 1, [(x['moduli'], x['style'], x['banner']) for x in members])
            if size not in want:
                fails.append(['size-depends-on-servers-audited-in-the-same-run', '%s %s: reported %r, reference %r' % (tag, alg, size, sorted(want, key=str))])
            else:
                f2 = []
                _check_notes(alg, size, notes, fb if not m.get('faults') else None, f2, tag)
                fails += [[sig + '-in-multi-target-run', d] for sig, d in f2]
    return mkres(case, nt=True, classes=['seq', 'n:%d' % len(members), 'threads:%d' % case.get('threads', 1)], fails=fails[:6])


def make_cases_seq():
    pool = [([2048], 'roundup', 'dropbear'), ([4096], 'roundup', 'dropbear'), ([3072], 'strict', 'openssh'), ([1024], 'roundup', 'dropbear'), ([2048, 4096], 'strict', 'openssh'), ([], 'openssh', 'openssh'), ([8192], 'roundup', 'openssh'),
            ([1536], 'strict', 'dropbear'), ([6144, 8192], 'strict', 'dropbear'), ([], 'strict', 'dropbear')]
    n = 0
    for a in pool:
        for b in pool:
            if a == b:
                continue
            for c in (None, pool[(n * 7) % len(pool)]):
                n += 1
                ms = [{'moduli': x[0], 'style': x[1], 'banner': x[2], 'algs': ('both', 'sha256', 'sha1')[(n + j) % 3] if j else 'both', 'gex_first': (n + j) % 4 == 0, 'key': ['ssh-rsa', 'ssh-ed25519'] if (n + j) % 4 == 0 else ['ssh-ed25519']} for j, x in enumerate([a, b] + ([c] if c else []))]
                if n % 5 == 0:
                    # ... one of them refuses every group-exchange request after its host-key probes
                    ms[-1]['faults'] = [['gex_group', '*', ['disconnect', 12]]]
                yield {'family': 'seq', 'members': ms, 'threads': 1 + n % 2}


def eval_slow(case):
    """Engine B: a server that answers every message late but well within the timeout.  All waits together exceed
    the timeout several times over; each connection is nevertheless entitled to its own."""
    algs = ALGSETS[case['algs']]
    spec = {'banner': BANNERS[case['banner']], 'kex': ['curve25519-sha256'] + algs, 'hostkeys': {'ssh-ed25519': {'t': 'ed25519'}}, 'moduli': case['moduli'], 'gex_style': case['style'], 'reply_delay': case['delay']}
    peer = fakenet.peer_from_spec(spec)
    with drive.RealServers([peer]) as rs:
        r = drive.run_subprocess(['-n', '-j', '--skip-rate-test', '-t', str(case['timeout']), '-p', str(rs.ports[0]), '127.0.0.1'], timeout=240)
    fails = []
    want, fb = ref_expected(case['moduli'], case['style'], case['banner'].startswith('openssh'))
    if r.code not in (0, 2, 3):
        fails.append(['slow-peer-not-audited', 'exit %d: %r' % (r.code, r.out[-300:])])
    else:
        got = _sizes_and_notes_json(json.loads(r.out))
        for alg in algs:
            size = got.get(alg, (None, {}))[0]
            if size not in want:
                fails.append(['size-mismatch-slow-peer', '%s: reported %r, reference %r (moduli=%r style=%s, every reply %.1fs late, timeout %ss)' % (alg, size, sorted(want, key=str), case['moduli'], case['style'], case['delay'], case['timeout'])])
    return mkres(case, nt=True, classes=['engine-B', 'slow-peer'], fails=fails)


def eval_case(case):
    if case.get('family') == 'slow':
        return eval_slow(case)
    if case.get('family') == 'seq':
        return eval_seq(case)
    algs = ALGSETS[case['algs']]
    spec = {'banner': BANNERS[case['banner']], 'kex': ['curve25519-sha256'] + algs, 'hostkeys': {'ssh-ed25519': {'t': 'ed25519'}}, 'moduli': case['moduli'], 'gex_style': case['style']}
    if case.get('moduli256') is not None:
        spec['moduli_by_alg'] = {SHA1: case['moduli'], SHA256: case['moduli256']}
    if case.get('fault'):
        spec['faults'] = [case['fault']]
    if case.get('chatter'):
        spec['chatter'] = case['chatter']
    if case.get('lenient'):
        spec['check_e'] = False        # a server that goes on with whatever public value the client sends
    openssh = case['banner'].startswith('openssh')
    fails = []
    want, fb = ref_expected(case['moduli'], case['style'], openssh)
    want_by = {SHA1: (want, fb), SHA256: ref_expected(case['moduli256'], case['style'], openssh) if case.get('moduli256') is not None else (want, fb)}
    faulty = bool(case.get('fault'))
    renderings = case.get('renderings', ['json', 'text'])
    seen = {}
    for rend in renderings:
        srv = fakenet.Server(spec)
        net = fakenet.FakeNet()
        net.add('h', 22, srv)
        argv = ['-n', '--skip-rate-test'] + (['-j'] if rend == 'json' else []) + ['h']
        r = drive.run_cli(argv, net)
        if r.exc or r.hang:
            # crashes/hangs are C09's; here they also mean "no size rather than a wrong one" is not met
            fails.append(['%s-in-gex-phase' % ('hang' if r.hang else drive.crash_sig(r)), r.brief()])
            continue
        if faulty and r.code == 1:
            continue      # fault hit the first handshake: no report, nothing to check here
        if rend == 'json':
            try:
                doc = json.loads(r.out)
            except ValueError:
                fails.append(['json-unparseable', r.out[-300:]])
                continue
            got = _sizes_and_notes_json(doc)
        else:
            tr = report.TextReport(r.out)
            got = {}
            for a in tr.algs.get('kex', []):
                if a['name'] in (SHA1, SHA256):
                    m = re.match(r'(\d+)-bit$', a['size'] or '')
                    notes = {}
                    for sev, t in a['notes']:
                        notes.setdefault(sev, []).append(t)
                    got[a['name']] = (int(m.group(1)) if m else None, notes)
        # what the server really handed out, per algorithm (second witness + bounds)
        per_alg = {}
        for c in srv.conns:
            if c.ckex and c.ckex[0] in (SHA1, SHA256):
                per_alg.setdefault(c.ckex[0], []).append(c)
        for alg in algs:
            if alg not in got:
                fails.append(['gex-alg-missing-from-report', '%s %s' % (rend, alg)])
                continue
            size, notes = got[alg]
            want, fb = want_by[alg]
            seen.setdefault(alg, {})[rend] = size
            reqs = [tuple(e[2]) for c in per_alg.get(alg, []) for e in srv.log if e[0] == c.idx and e[1] == 'gex_request']
            delivered = []
            for c in per_alg.get(alg, []):
                for what, data in c.emitted:
                    if what == 'gex_group':
                        try:
                            pl, prob = fakenet.wire.check_packet_framing(data)
                            rd = fakenet.wire.Reader(pl)
                            if rd.byte() != 31:
                                raise ValueError
                            p = rd.mpint()
                            rd.mpint()
                            if rd.rest() or prob or p <= 0:
                                raise ValueError
                            delivered.append(p.bit_length())
                        except (ValueError, TypeError):
                            pass
            if not faulty:
                if size not in want:
                    cls = 'extension' if case['family'] == 'extension' else 'stated'
                    sig = 'size-mismatch-%s' % cls
                    if cls == 'extension' and size is not None and delivered and size in delivered and size != min(delivered):
                        sig = 'extension-last-answer-not-smallest'
                    elif cls == 'extension' and size is None and delivered:
                        sig = 'extension-handed-out-but-no-size'
                    fails.append([sig, '%s %s: reported %r, reference %r (moduli=%r style=%s banner=%s; handed out %r)' % (rend, alg, size, sorted(want, key=str), case['moduli'], case['style'], case['banner'], delivered)])
                _check_notes(alg, size, notes, fb, fails, rend)
            else:
                if case['family'] == 'lostprobe':
                    ok = set()
                    for lost in [None] + list(range(9)):
                        ok |= simulate_with_lost_probe(case['moduli'], case['style'], openssh, lost)
                    if size not in ok:
                        fails.append(['size-wrong-after-one-failed-probe', '%s %s: reported %r; with any single probe unanswered the documented sequence gives %r (moduli=%r style=%s fault %r; delivered %r)' % (rend, alg, size, sorted(ok, key=str), case['moduli'], case['style'], case['fault'], delivered)])
                if size is not None and size not in delivered:
                    fails.append(['size-not-from-a-delivered-group', '%s %s: reported %r but well-formed groups delivered were %r (fault %r)' % (rend, alg, size, delivered, case['fault'])])
                _check_notes(alg, size, notes, size if any(FALLBACK.search(t) for t in notes.get('info', [])) else None, fails, rend)
            bad = [q for q in reqs if q not in PROBES and q != SECOND]
            if bad:
                fails.append(['probe-outside-fixed-sequence', '%s: %r' % (alg, bad)])
            if len(reqs) > 9:
                fails.append(['too-many-gex-probes', '%s: %d requests' % (alg, len(reqs))])
            if SECOND in reqs and not openssh:
                fails.append(['second-pass-on-non-openssh', alg])
    for alg, d in seen.items():
        if len(set(d.values())) > 1:
            fails.append(['text-json-size-disagree', '%s: %r' % (alg, d)])
    ms = case['moduli']
    nt = len(ms) >= 2 or case['style'] == 'openssh' or 2048 in ms or 3072 in ms or faulty
    classes = [case['family'], 'style:' + case['style'], 'n=%d' % min(len(ms), 4)]
    if None not in want:
        classes.append('size-reported')
    if fb:
        classes.append('fallback-note')
    return mkres(case, nt=nt, classes=classes, fails=fails)


def run(ctx):
    stated = list(make_cases_stated())
    part = stated           # the whole stated domain in both tiers (9 216 servers take seconds)
    ctx.exhaustive = True
    ctx.map(part)
    faults = list(make_cases_faults())
    if ctx.quick:
        ctx.rng.shuffle(faults)
        faults = faults[:1600]
    ctx.map(faults)
    slow = [{'family': 'slow', 'moduli': [512, 1024, 2048], 'style': 'strict', 'algs': 'sha256', 'banner': 'dropbear', 'delay': 0.5, 'timeout': 3},
            {'family': 'slow', 'moduli': [768, 3072], 'style': 'prefup', 'algs': 'sha256', 'banner': 'openssh', 'delay': 0.4, 'timeout': 3}]
    if not ctx.quick:
        slow += [{'family': 'slow', 'moduli': m, 'style': st_, 'algs': a, 'banner': b, 'delay': d, 'timeout': 3} for m in ([1024, 4096], [2048, 3072], [1536]) for st_ in ('strict', 'openssh') for a in ('sha1', 'both') for b in ('openssh', 'dropbear') for d in (0.3, 0.6)]
    ctx.map(slow, chunk=1)
    ctx.map(list(make_cases_banners()))
    lp = list(make_cases_lostprobe())
    if ctx.quick:
        ctx.rng.shuffle(lp)
        lp = lp[:2000]
    ctx.map(lp)
    pa = list(make_cases_peralg())
    ctx.map(pa)
    ch = list(make_cases_chatty())
    ctx.map(ch)
    sq = list(make_cases_seq())
    ctx.map(sq)
    ext = list(make_cases_extension())
    if ctx.quick:
        head, tail = ext[:4 * len(NEAR) + 72], ext[4 * len(NEAR) + 72:]
        ctx.rng.shuffle(tail)
        ext = head + tail[:600]
    ctx.map(ext)
    ctx.note(stated_domain=len(stated), stated_run=len(part), fault_cases=len(faults), lost_probe_cases=len(lp), extension_cases=len(ext),
             explanation='stated domain = every subset of the nine sizes x 3 styles x 3 alg sets x 2 banners; exhaustive flag refers to that domain')
    return ctx.finish('exploration', 'cases are enumerated server moduli policies (stated domain, extension grid of 256-bit steps, fault family); distinct = distinct case dict; non-trivial = >=2 moduli, or OpenSSH-fallback style, or 2048/3072 in the set, or a fault in the GEX phase',
                      assumptions=['engine A (in-process CLI over the virtual network) is faithful; sampled A/B agreement is checked in C09/C15', 'moduli are 2^(n-1)+1: only the bit length matters to the tool'])

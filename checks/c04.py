"""C04 — Terrapin (CVE-2023-48795) exposure is flagged exactly per the published rule.

Exhaustive skeleton role x marker x ChaCha subset x #CBC x #ETM x other-algorithms (576 shapes),
instantiated with database names of each class (class membership defined here from the published
rule by name shape) and with unknown names of the same shape; text and JSON.
"""
import itertools
import json
import re

from vlib import fakenet, drive, report, refmodel, gens
from vlib.runner import mkres

ID = 'C04'
MS, MC = 'kex-strict-s-v00@openssh.com', 'kex-strict-c-v00@openssh.com'
TW = 'Terrapin'          # any note on an algorithm line that mentions Terrapin is the Terrapin warning, whatever its exact wording
NOTE_RX = re.compile(r'vulnerable SSH channels with this target: (.*?)\.  If any CBC')
UNKNOWN = {'chacha': ['chacha20-poly1305@example.com', 'chacha20-poly1305-v2@openssh.com'], 'cbc': ['foo256-cbc', 'bar-cbc@example.com', 'kuznyechik-cbc'], 'etm': ['hmac-foo-etm@openssh.com', 'umac-256-etm@openssh.com']}


def classes_db():
    enc, mac = gens.db_names('enc'), gens.db_names('mac')
    return {'chacha': [n for n in enc if refmodel.is_chacha(n)], 'cbc': [n for n in enc if refmodel.is_cbc(n)], 'etm': [n for n in mac if refmodel.is_etm(n)],
            'enc_other': [n for n in enc if not refmodel.is_chacha(n) and not refmodel.is_cbc(n)], 'mac_other': [n for n in mac if not refmodel.is_etm(n)]}


def instantiate(shape, rot, unknown=False, neigh=0):
    C = classes_db()
    role, marker, chmask, ncbc, netm, other = shape
    src = UNKNOWN if unknown else C
    marks = {'own': [MS if role == 'server' else MC], 'other': [MC if role == 'server' else MS], 'both': [MS, MC], 'none': []}[marker]
    # the marker may sit anywhere in the list: last (as OpenSSH sends it), first, or before other names
    others = ['curve25519-sha256', 'ext-info-s' if role == 'server' else 'ext-info-c', 'diffie-hellman-group16-sha512']
    layout = (rot + neigh) % 4
    if layout == 0:
        kex = others[:1] + marks
    elif layout == 1:
        kex = marks + others[:2]
    elif layout == 2:
        kex = others[:1] + marks + others[1:2]
    else:
        kex = others[:1] + marks[::-1] + others[1:]
    ch = [src['chacha'][i % len(src['chacha'])] for i in range(2) if chmask >> i & 1]
    if unknown and ch:
        ch = [src['chacha'][(rot + i) % len(src['chacha'])] for i in range(len(ch))]
    cbc = [src['cbc'][(rot + i) % len(src['cbc'])] for i in range(ncbc)]
    etm = [src['etm'][(rot + i) % len(src['etm'])] for i in range(netm)]
    eo = [C['enc_other'][(rot * 3 + neigh * 7 + i) % len(C['enc_other'])] for i in range(1 + neigh % 3)] if other or not (ch or cbc) else []
    mo = [C['mac_other'][(rot * 5 + neigh * 11 + i) % len(C['mac_other'])] for i in range(1 + neigh % 2)] if other or not etm else []
    if unknown == 'mix':
        # names the table knows next to unknown names of the same shape, the unknown one first, in between or last
        dbc = [C['cbc'][(rot + i) % len(C['cbc'])] for i in range(ncbc)]
        dbe = [C['etm'][(rot + i) % len(C['etm'])] for i in range(netm)]
        dbch = [C['chacha'][i % len(C['chacha'])] for i in range(2) if chmask >> i & 1]
        cbc = dbc[:rot % (ncbc + 1)] + [UNKNOWN['cbc'][rot % 3]] + dbc[rot % (ncbc + 1):] if ncbc else []
        etm = dbe[:(rot + neigh) % (netm + 1)] + [UNKNOWN['etm'][rot % 2]] + dbe[(rot + neigh) % (netm + 1):] if netm else []
        ch = ([UNKNOWN['chacha'][rot % 2]] + dbch) if (dbch and rot % 2) else (dbch + [UNKNOWN['chacha'][rot % 2]] if dbch else [])
    enc = ch + cbc + eo
    mac = etm + mo
    if neigh % 2 and unknown != 'mix':
        enc, mac = enc[::-1], mac[::-1]
    # no duplicates: a class member may coincide with a neighbour only through rotation of the same list
    enc = list(dict.fromkeys(enc))
    mac = list(dict.fromkeys(mac))
    return {'role': role, 'marker': marker, 'kex': kex, 'enc': enc, 'mac': mac, 'unknown': unknown, 'shape': list(shape)}


def reference(case):
    role, kex, enc, mac = case['role'], case['kex'], case['enc'], case['mac']
    has_marker = (MS if role == 'server' else MC) in kex
    ch = [x for x in enc if refmodel.is_chacha(x)]
    cbc = [x for x in enc if refmodel.is_cbc(x)]
    etm = [x for x in mac if refmodel.is_etm(x)]
    vs = list(ch) + ((cbc + etm) if cbc and etm else [])
    exposed = (not has_marker) and bool(vs)
    return has_marker, vs, exposed


def eval_asym(case):
    """Peers whose two directions offer the affected classes differently.  Which lists "the peer offers" then means is not
    spelled out by the rule, so every fixed reading is accepted - the audited role's own direction, the other direction, or
    both together - but it has to be ONE reading: the cipher side and the MAC side of the CBC+ETM conjunction, the text and
    the JSON report, and every peer of the battery must be explained by the same one."""
    role = case['role']
    mark = [MS if role == 'server' else MC] if case['marker'] else []
    fails = []
    ok = {'own': True, 'other': True, 'union': True}
    trace = []
    for sub in case['subs']:
        kex = ['curve25519-sha256'] + mark
        if role == 'server':
            spec = {'banner': 'SSH-2.0-OpenSSH_9.3', 'kex': kex, 'key': ['ssh-ed25519'], 'enc': sub['own_enc'], 'mac': sub['own_mac'], 'enc_c': sub['other_enc'], 'mac_c': sub['other_mac']}
        else:
            spec = {'banner': 'SSH-2.0-OpenSSH_9.3', 'kex': kex, 'key': ['ssh-ed25519'], 'enc_c': sub['own_enc'], 'mac_c': sub['own_mac'], 'enc': sub['other_enc'], 'mac': sub['other_mac']}
        readings = {
            'own': reference({'role': role, 'kex': kex, 'enc': sub['own_enc'], 'mac': sub['own_mac']}),
            'other': reference({'role': role, 'kex': kex, 'enc': sub['other_enc'], 'mac': sub['other_mac']}),
            'union': reference({'role': role, 'kex': kex, 'enc': sub['own_enc'] + [x for x in sub['other_enc'] if x not in sub['own_enc']], 'mac': sub['own_mac'] + [x for x in sub['other_mac'] if x not in sub['own_mac']]}),
        }
        for rend in ('json', 'text'):
            net = fakenet.FakeNet()
            base = ['-n'] + (['-j'] if rend == 'json' else [])
            if role == 'server':
                net.add('h', 22, fakenet.Server(spec))
                r = drive.run_cli(base + ['--skip-rate-test', 'h'], net)
            else:
                net.pending_clients.append(fakenet.Server(spec))
                r = drive.run_cli(base + ['-c'], net)
            if r.exc or r.hang or r.code not in (0, 2, 3):
                fails.append([drive.crash_sig(r) if r.exc else 'no-report', r.brief()])
                continue
            if rend == 'json':
                doc = json.loads(r.out)
                jr = report.JsonReport(doc)
                finds, shown = jr.findings(), {'enc': jr.names('enc'), 'mac': jr.names('mac')}
                notes = [n for n in doc.get('additional_notes', []) if 'strict key exchange' in n]
            else:
                tr = report.TextReport(r.out)
                finds, shown = tr.findings(), {'enc': tr.names('enc'), 'mac': tr.names('mac')}
                notes = [n for n in tr.nfo if 'strict key exchange' in n]
            warned = {(cat, name) for cat, name, sev, text in finds if TW in text and 'pseudo-algorithm' not in text}
            listed = None
            if len(notes) == 1:
                m = NOTE_RX.search(notes[0])
                listed = sorted(m.group(1).split(', ')) if m else None
            trace.append('%s: shown enc=%r mac=%r warned=%r note=%r' % (rend, shown['enc'], shown['mac'], sorted(warned), listed))
            for R, (has_marker, vs, exposed) in readings.items():
                # only a name the report shows can carry a note
                want = {(cat, x) for x in vs for cat in ('enc', 'mac') if x in shown[cat] and (refmodel.is_etm(x) if cat == 'mac' else not refmodel.is_etm(x))} if exposed else set()
                want_note = sorted(vs) if (has_marker and vs) else None
                if warned != want or listed != want_note or len(notes) > 1:
                    ok[R] = False
    if not any(ok.values()) and not fails:
        fails.append(['asymmetric-directions-no-single-reading-explains-the-flags', '%s audit, marker %s: neither the own direction, nor the other direction, nor both together explain the Terrapin flags of this battery: %r -> %s' % (role, 'present' if mark else 'absent', case['subs'], ' | '.join(trace))])
    return mkres(case, nt=True, classes=['asymmetric-directions', 'role:' + role, 'marker:' + ('own' if mark else 'none'), 'reading:' + '/'.join(R for R in ok if ok[R])], fails=fails)


def eval_seq(case):
    """Several servers in one invocation: the rule is applied to each of them as if it were alone."""
    import os
    net = fakenet.FakeNet()
    ms = case['members']
    for i, m in enumerate(ms):
        net.add('s%d' % i, 22, fakenet.Server({'banner': 'SSH-2.0-OpenSSH_9.3', 'kex': m['kex'], 'key': ['ssh-ed25519'], 'enc': m['enc'], 'mac': m['mac']}))
    tf = drive.tmpfile(''.join('s%d\n' % i for i in range(len(ms))))
    try:
        r = drive.run_cli(['-n', '-j', '--skip-rate-test', '--threads', str(case.get('threads', 1)), '-T', tf], net)
    finally:
        os.unlink(tf)
    fails = []
    if r.exc or r.hang or r.code not in (0, 2, 3):
        return mkres(case, nt=True, classes=['seq', 'crashed'], fails=[[drive.crash_sig(r) if r.exc else 'no-report', r.brief()]])
    docs = {d['target'].split(':')[0]: d for d in json.loads(r.out) if isinstance(d, dict) and 'target' in d}
    for i, m in enumerate(ms):
        doc = docs.get('s%d' % i)
        if doc is None:
            fails.append(['no-report', 'server %d' % (i + 1)])
            continue
        has_marker, vs, exposed = reference(dict(m, role='server'))
        finds = report.JsonReport(doc).findings()
        warned = {(cat, name) for cat, name, sev, text in finds if TW in text and 'pseudo-algorithm' not in text}
        db_enc, db_mac = set(gens.db_names('enc')), set(gens.db_names('mac'))
        want = {('mac' if refmodel.is_etm(x) else 'enc', x) for x in vs if x in db_enc or x in db_mac} if exposed else set()
        tag = 'server %d of %d (%s)' % (i + 1, len(ms), ', '.join('exposed' if reference(dict(x, role='server'))[2] else ('marker' if reference(dict(x, role='server'))[0] else 'clean') for x in ms))
        if warned - want:
            fails.append(['terrapin-warning-on-unaffected-algorithm-in-multi-target-run', '%s: %r warned, rule says %r' % (tag, sorted(warned - want), sorted(want))])
        if want - warned:
            fails.append(['terrapin-warning-missing-in-multi-target-run', '%s: %r not warned' % (tag, sorted(want - warned))])
        notes = [n for n in doc.get('additional_notes', []) if 'strict key exchange' in n]
        if bool(notes) != bool(has_marker and vs):
            fails.append(['advisory-note-in-multi-target-run', '%s: %d advisory notes, marker %s, affected %r' % (tag, len(notes), has_marker, vs)])
        badd = [(cat, name) for level, action, cat, name, _ in report.JsonReport(doc).recs() if action == 'add' and (refmodel.is_chacha(name) or refmodel.is_cbc(name) or refmodel.is_etm(name))]
        if badd:
            fails.append(['terrapin-class-algorithm-recommended-for-addition-in-multi-target-run', '%s: %r' % (tag, badd)])
    return mkres(case, nt=True, classes=['seq', 'n:%d' % len(ms), 'threads:%d' % case.get('threads', 1)], fails=fails[:4])


def eval_case(case):
    if case.get('kind') == 'seq':
        return eval_seq(case)
    if case.get('kind') == 'asym':
        return eval_asym(case)
    role = case['role']
    has_marker, vs, exposed = reference(case)
    spec = {'banner': case.get('banner', 'SSH-2.0-OpenSSH_9.3'), 'kex': case['kex'], 'key': ['ssh-ed25519'], 'enc': case['enc'], 'mac': case['mac']}
    context = case.get('context', 'plain')
    if context == 'gex2048':
        spec.update(moduli=[], gex_style='openssh')      # every group-exchange request is answered with the 2048-bit fallback group
    fails = []
    db_enc, db_mac = set(gens.db_names('enc')), set(gens.db_names('mac'))
    for rend in case.get('renderings', ['json', 'text']):
        peer = fakenet.Server(spec)
        net = fakenet.FakeNet()
        base = ['-n'] + (['-j'] if rend == 'json' else [])
        if role == 'server':
            net.add('h', 22, peer)
            r = drive.run_cli(base + ([] if context == 'rate' else ['--skip-rate-test']) + ['h'], net)
        else:
            net.pending_clients.append(peer)
            r = drive.run_cli(base + ['-c'], net)
        if r.exc or r.hang:
            sig = drive.crash_sig(r) if r.exc else 'hang'
            if case['unknown'] and r.exc:
                sig += '-unknown-name-of-terrapin-shape'
            fails.append([sig, r.brief()])
            continue
        if r.code not in (0, 2, 3):
            fails.append(['no-report', r.brief()])
            continue
        if rend == 'json':
            doc = json.loads(r.out)
            jr = report.JsonReport(doc)
            finds = jr.findings()
            notes = [n for n in doc.get('additional_notes', []) if 'strict key exchange' in n]
            adds = [(cat, name) for level, action, cat, name, _ in jr.recs() if action == 'add']
        else:
            tr = report.TextReport(r.out)
            finds = tr.findings()
            notes = [n for n in tr.nfo if 'strict key exchange' in n]
            adds = [(cat, name) for sign, name, cat, action, _ in tr.rec if sign == '+']
        warned = {(cat, name) for cat, name, sev, text in finds if TW in text and 'pseudo-algorithm' not in text}
        sev_bad = [(cat, name, sev) for cat, name, sev, text in finds if TW in text and 'pseudo-algorithm' not in text and sev != 'warn']
        want = {('enc' if (refmodel.is_chacha(x) or refmodel.is_cbc(x)) and not refmodel.is_etm(x) else 'mac', x) for x in vs} if exposed else set()
        missing, extra = want - warned, warned - want
        if extra:
            fails.append(['terrapin-warning-on-unaffected-algorithm', '%s %s: %r warned, rule says %r (case %r)' % (rend, role, sorted(extra), sorted(want), case)])
        if missing:
            unk = [m for m in missing if m[1] not in db_enc and m[1] not in db_mac]
            if unk and len(unk) == len(missing):
                fails.append(['terrapin-warning-missing-on-unknown-name', '%s %s: %r not warned (unknown to the database), case %r' % (rend, role, sorted(missing), case)])
            else:
                sig = 'terrapin-warning-missing'
                if all(m[1] == 'des-cbc-ssh1' or refmodel.is_etm(m[1]) for m in missing) and [x for x in case['enc'] if refmodel.is_cbc(x)] == ['des-cbc-ssh1']:
                    sig = 'terrapin-warning-missing-des-cbc-ssh1'
                fails.append([sig, '%s %s: %r not warned, rule says %r (case %r)' % (rend, role, sorted(missing), sorted(want), case)])
        if sev_bad:
            fails.append(['terrapin-note-not-a-warning', repr(sev_bad)])
        if has_marker and vs:
            if len(notes) != 1:
                fails.append(['advisory-note-missing', '%s %s: %d advisory notes, marker present and %r offered' % (rend, role, len(notes), vs)])
            else:
                m = NOTE_RX.search(notes[0])
                listed = m.group(1).split(', ') if m else None
                if listed is None or sorted(listed) != sorted(vs):
                    sig = 'advisory-note-list'
                    if listed is not None and set(vs) - set(listed) == {'des-cbc-ssh1'} | ({x for x in vs if refmodel.is_etm(x)} if [x for x in case['enc'] if refmodel.is_cbc(x)] == ['des-cbc-ssh1'] else set()) and not set(listed) - set(vs):
                        sig = 'advisory-note-list-des-cbc-ssh1'
                    fails.append([sig, '%s %s: note lists %r, rule says %r' % (rend, role, listed, sorted(vs))])
        elif notes:
            fails.append(['advisory-note-unexpected', '%s %s: %r' % (rend, role, notes[0][:200])])
        badd = [a for a in adds if refmodel.is_chacha(a[1]) or refmodel.is_cbc(a[1]) or refmodel.is_etm(a[1])]
        if badd:
            fails.append(['terrapin-class-algorithm-recommended-for-addition', '%s %s: %r' % (rend, role, badd)])
    nt = exposed or (has_marker and bool(vs))
    cl = ['role:' + role, 'marker:' + case['marker'], 'exposed' if exposed else ('advisory' if has_marker and vs else 'clean'), 'unknown-names' if case['unknown'] else 'db-names', 'context:' + context] + (['banner:' + case['banner'].split('-', 2)[2].split('_')[0]] if case.get('banner') else [])
    return mkres(case, nt=nt, classes=cl, fails=fails)


def shapes():
    return list(itertools.product(('server', 'client'), ('own', 'other', 'both', 'none'), range(4), range(3), range(3), (0, 1)))


def run(ctx):
    C = classes_db()
    sh = shapes()
    cases = []
    rot0 = ctx.seed
    if ctx.quick:
        for i, s in enumerate(sh):
            cases.append(instantiate(s, rot0 + i, neigh=i % 5))
        for i, s in enumerate(sh):
            if (s[2] or s[3] or s[4]) and i % 3 == ctx.seed % 3:
                cases.append(instantiate(s, rot0 + i, unknown=True, neigh=i % 3))
            if (s[2] or s[3] or s[4]) and i % 2 == ctx.seed % 2:
                cases.append(instantiate(s, rot0 + i, unknown='mix', neigh=i % 3))
    else:
        for i, s in enumerate(sh):
            for rot in range(max(len(C['cbc']), len(C['etm']))):
                for neigh in range(5 if rot % 4 == 0 else 1):
                    cases.append(instantiate(s, rot, neigh=neigh))
            if s[2] or s[3] or s[4]:
                for rot in range(3):
                    cases.append(instantiate(s, rot, unknown=True, neigh=rot))
                for rot in range(6):
                    cases.append(instantiate(s, rot, unknown='mix', neigh=rot % 3))
    # contexts in which other machinery produces notes / suppressions next to the Terrapin ones (server audits):
    # the connection-rate check runs and reports; a group exchange measured at 2048 bits on OpenSSH (fallback note + suppression)
    step = 3 if ctx.quick else 1
    for i, s in enumerate(sh):
        if s[0] != 'server' or i % step != ctx.seed % step:
            continue
        for context, extra in (('rate', 'diffie-hellman-group14-sha256'), ('gex2048', 'diffie-hellman-group-exchange-sha256')):
            c = instantiate(s, rot0 + i, neigh=i % 5)
            c['kex'] = c['kex'][:1] + [extra] + c['kex'][1:] if i % 2 else c['kex'] + [extra]
            c['context'] = context
            cases.append(c)
    # asymmetric directions: batteries of peers whose two directions offer the affected classes differently
    import random
    rng = random.Random(ctx.seed * 7919 + 4)
    def side():
        enc = [C['enc_other'][rng.randrange(len(C['enc_other']))]]
        mac = [C['mac_other'][rng.randrange(len(C['mac_other']))]]
        if rng.random() < 0.5:
            enc.insert(rng.randrange(2), C['cbc'][rng.randrange(len(C['cbc']))])
        if rng.random() < 0.5:
            mac.insert(rng.randrange(2), C['etm'][rng.randrange(len(C['etm']))])
        if rng.random() < 0.25:
            enc.insert(rng.randrange(len(enc) + 1), C['chacha'][0])
        return enc, mac
    for i in range(40 if ctx.quick else 600):
        subs = []
        while len(subs) < 6:
            oe, om = side()
            te, tm = side()
            if (oe, om) != (te, tm):
                subs.append({'own_enc': oe, 'own_mac': om, 'other_enc': te, 'other_mac': tm})
        cases.append({'kind': 'asym', 'role': ('server', 'client')[i % 2], 'marker': i % 4 >= 2, 'subs': subs})
    # sequences: 2-4 server shapes in one run, an exposed one in front of protected / unaffected ones and the other way round
    srv = [instantiate(sx, rot0 + i, neigh=i % 5) for i, sx in enumerate(sh) if sx[0] == 'server' and (sx[2] or sx[3] or sx[4])]
    bare = [instantiate(sx, rot0 + i, neigh=i % 5) for i, sx in enumerate(sh) if sx[0] == 'server' and not (sx[2] or sx[3] or sx[4])]
    for i in range(60 if ctx.quick else 900):
        k = 2 + i % 3
        ms = [srv[(i * 37 + j * 101 + ctx.seed) % len(srv)] for j in range(k)]
        if i % 3 == 0:
            # a server on which the operator disabled all of it, behind (or in front of) ones that have it enabled
            ms[(i // 3) % k] = bare[(i + ctx.seed) % len(bare)]
        cases.append({'kind': 'seq', 'members': [{'kex': m['kex'], 'enc': m['enc'], 'mac': m['mac']} for m in ms], 'threads': 1 + i % 2})
    # every CBC cipher and every ETM MAC of the table at least once in an exposed and in an advisory configuration
    for i, c in enumerate(C['cbc']):
        e = C['etm'][i % len(C['etm'])]
        for role in ('server', 'client'):
            for marker in ('none', 'own'):
                cases.append({'role': role, 'marker': marker, 'kex': ['curve25519-sha256'] + ([MS if role == 'server' else MC] if marker == 'own' else []), 'enc': [c, 'aes128-ctr'], 'mac': [e, 'hmac-sha2-256'], 'unknown': False, 'shape': ['every-member', c]})
    # what the peer says it is must not matter to the rule (recommendations exist for the recognised, versioned products)
    BANNERS = ['SSH-2.0-dropbear_2022.83', 'SSH-2.0-libssh_0.10.4', 'SSH-2.0-PuTTY_Release_0.78', 'SSH-2.0-OpenSSH_7.4', 'SSH-2.0-x', 'SSH-2.0-OpenSSH_for_Windows_8.1', 'SSH-1.99-Cisco-1.25', 'SSH-2.0-dropbear_2019.78']
    extra = []
    for i, c in enumerate(cases):
        if c.get('kind') not in ('asym', 'seq') and c.get('context', 'plain') == 'plain' and i % (4 if ctx.quick else 1) == ctx.seed % (4 if ctx.quick else 1):
            extra.append(dict(c, banner=BANNERS[(i // 4) % len(BANNERS)]))
    cases += extra
    seen, uniq = set(), []
    for c in cases:
        k = json.dumps(c, sort_keys=True)
        if k not in seen:
            seen.add(k)
            uniq.append(c)
    ctx.map(uniq)
    ctx.exhaustive = True
    ctx.note(shapes=len(sh), class_sizes={k: len(v) for k, v in C.items()}, explanation='exhaustive flag: all 576 skeleton shapes are instantiated at least once (quick: one rotation each; thorough: every class member x neighbourhoods)')
    return ctx.finish('exploration', 'every combination of role x marker(own/other/both/none) x ChaCha subset x number of CBC ciphers (0-2) x number of ETM MACs (0-2) x other algorithms present, instantiated with database names of each class in rotation with varying neighbours and order, plus unknown names of the same shapes (alone, and placed before / between / after names the table knows); each case audited in text and JSON; non-trivial = exposed, or marker present with a non-empty affected set',
                      assumptions=['class membership by name shape: cipher begins chacha20-poly1305; cipher has a cbc mode component; MAC ends -etm@openssh.com', 'with asymmetric directions any single reading of "offers" (own direction, other direction, both) is accepted, but the same one for ciphers and MACs, text and JSON, and all six peers of a battery'])

"""C03 — an algorithm's rating depends only on the algorithm, in every view.

For every database name (and gss-* instantiation, and unknown names): the notes shown for it in the
text report, the JSON report and --lookup equal a reference computed from the table entry alone
(plus the documented Terrapin context), whatever its position, neighbours or the audited role.
"""
import collections
import json

from hypothesis import strategies as st

from vlib import fakenet, drive, report, refmodel, gens
from vlib.runner import mkres
from checks import c04

ID = 'C03'
CATS = ('kex', 'key', 'enc', 'mac')
TWTEXT = 'vulnerable to the Terrapin attack (CVE-2023-48795), allowing message prefix truncation'
DEFAULTS = {'kex': 'curve25519-sha256', 'key': 'ssh-ed25519', 'enc': 'aes128-ctr', 'mac': 'hmac-sha2-256'}


def since_text(entry):
    fv = refmodel.first_versions(entry)
    if not fv:
        return None
    tv = []
    for p, v, c in fv:
        if p == 'libssh':
            continue
        tv.append('%s %s%s' % (p, v, ' (client only)' if c else ''))
    return ('available since ' + ', '.join(tv)) if tv else None


def ref_notes(db, cat, name):
    """Expected notes {sev: Counter(texts)} for a name from its table entry alone; None if unknown."""
    e = refmodel.db_lookup(db, cat, name)
    if e is None:
        return None
    res = {'fail': collections.Counter(e[1] if len(e) > 1 else []), 'warn': collections.Counter(e[2] if len(e) > 2 else []), 'info': collections.Counter(e[3] if len(e) > 3 else [])}
    s = since_text(e)
    if s:
        res['info'][s] += 1
    return res


def got_notes(findings, cat, name):
    res = {'fail': collections.Counter(), 'warn': collections.Counter(), 'info': collections.Counter()}
    for c, n, sev, text in findings:
        if 'Terrapin' in text and 'pseudo-algorithm' not in text:
            text = TWTEXT          # the wording of the Terrapin note is presentation, its presence and severity are not
        if c == cat and n == name and text != '':
            res[sev][text] += 1
    return res


HK = {'ssh-ed25519': {'t': 'ed25519'}, 'ssh-ed448': {'t': 'ed448'}, 'ecdsa-sha2-nistp256': {'t': 'ecdsa', 'curve': 'nistp256'}}
PROBED_NEIGHBOURS = {
    # name -> blob spec of a neighbour whose probe also measures something (and earns notes of its own)
    'ssh-ed25519-cert-v01@openssh.com': {'t': 'cert', 'kind': 'ssh-ed25519-cert-v01@openssh.com', 'ca': {'t': 'ecdsa', 'curve': 'nistp256'}},
    'ssh-rsa-cert-v01@openssh.com': {'t': 'cert', 'kind': 'ssh-rsa-cert-v01@openssh.com', 'bits': 1024, 'ca': {'t': 'rsa', 'bits': 1024}},
    'rsa-sha2-512': {'t': 'rsa', 'bits': 1024}, 'ssh-rsa': {'t': 'rsa', 'bits': 1024}, 'rsa-sha2-256': {'t': 'rsa', 'bits': 1024},
}
GEX1, GEX256 = 'diffie-hellman-group-exchange-sha1', 'diffie-hellman-group-exchange-sha256'
# targets whose own notes depend on what their probe measures (the measurement is the same alone and beside neighbours)
RSA_TARGETS = {'ssh-rsa': 1024, 'rsa-sha2-256': 2048, 'rsa-sha2-512': 4096}


def eval_probed(case):
    """With the probes answered: the notes of one algorithm (whose own measured attribute is fixed) audited alone
    and audited beside neighbours that are measured too - they may not differ."""
    cat, name = case['cat'], case['name']
    fails, seen = [], {}
    for variant in ('alone', 'beside'):
        keys = [name] if cat == 'key' else ['ssh-ed25519']
        kex = ['curve25519-sha256'] + ([name] if cat == 'kex' else [])
        hostkeys = dict(HK)
        mba = {name: case['moduli']} if cat == 'kex' else {}
        if variant == 'beside':
            if cat == 'key':
                keys = [n for n in case['before']] + [name] + [n for n in case['after']]
                for n in keys:
                    if n in PROBED_NEIGHBOURS:
                        hostkeys[n] = PROBED_NEIGHBOURS[n]
                if any(n in ('ssh-rsa', 'rsa-sha2-256', 'rsa-sha2-512') for n in keys):
                    for n in ('ssh-rsa', 'rsa-sha2-256', 'rsa-sha2-512'):
                        hostkeys[n] = {'t': 'rsa', 'bits': 1024}
                if case.get('first_kex'):
                    # ... and the key exchange the probes run over is another one (an unrelated neighbour as far as a host key is concerned)
                    kex = [case['first_kex'], 'curve25519-sha256']
                    if case['first_kex'].startswith('diffie-hellman-group-exchange'):
                        mba[case['first_kex']] = [3072]
            else:
                other = GEX1 if name == GEX256 else GEX256
                kex = ['curve25519-sha256'] + ([other, name] if case['order'] else [name, other])
                mba[other] = case['other_moduli']
        if name in RSA_TARGETS:
            for n in RSA_TARGETS:
                hostkeys[n] = {'t': 'rsa', 'bits': RSA_TARGETS[name]}       # one RSA key per server, whatever names it goes by
        if case.get('target_blob'):
            hostkeys[name] = case['target_blob']
        spec = {'banner': case['banner'], 'kex': kex, 'key': keys, 'hostkeys': hostkeys, 'moduli': [], 'moduli_by_alg': mba, 'gex_style': case.get('style', 'openssh')}
        if cat == 'kex' and case.get('other_style'):
            spec['gex_style_by_alg'] = {(GEX1 if name == GEX256 else GEX256): case['other_style']}
        for view in ('text', 'json'):
            net = fakenet.FakeNet()
            net.add('h', 22, fakenet.Server(spec))
            r = drive.run_cli(['-n'] + (['-j'] if view == 'json' else []) + ['--skip-rate-test', 'h'], net)
            if r.exc or r.hang or r.code not in (0, 2, 3):
                fails.append([drive.crash_sig(r) if r.exc else 'no-report', r.brief()])
                continue
            finds = report.JsonReport(json.loads(r.out)).findings() if view == 'json' else report.TextReport(r.out).findings()
            seen[(variant, view)] = got_notes(finds, cat, name)
    if case.get('expect_extra') is not None:
        # ... and what the measurement adds to the table's notes is known as well (severity by severity)
        want = ref_notes(gens.db(), cat, name)
        for sev, texts in case['expect_extra'].items():
            for t in texts:
                want[sev][t] += 1
        for (variant, view), got in seen.items():
            if got != want:
                which = [sev for sev in ('fail', 'warn', 'info') if got[sev] != want[sev]]
                fails.append(['notes-of-a-measured-key-differ-from-table-plus-measurement-%s' % view, '%s %s (%s): shown %r, table + measurement says %r (differs in %s)' % (cat, name, variant, {k: dict(v) for k, v in got.items()}, {k: dict(v) for k, v in want.items()}, '+'.join(which))])
                break
    for view in ('text', 'json'):
        a, b = seen.get(('alone', view)), seen.get(('beside', view))
        if a is not None and b is not None and a != b:
            fails.append(['notes-change-with-measured-neighbours-%s' % view, '%s %s: alone %r, beside %r it shows %r' % (cat, name, {k: dict(v) for k, v in a.items()}, case.get('before', []) + case.get('after', []) or case.get('other_moduli'), {k: dict(v) for k, v in b.items()})])
    return mkres(case, nt=True, classes=['probed', 'cat:' + cat] + (['probes-over:' + case['first_kex']] if case.get('first_kex') else []), fails=fails)


def eval_case(case):
    db = gens.db()
    fails = []
    if case['kind'] == 'probed':
        return eval_probed(case)
    if case['kind'] == 'lookup':
        name = case['name']
        net = fakenet.FakeNet()
        r = drive.run_cli(['-n', '--lookup', name], net)
        cats = [c for c in CATS if name in db[c]]
        if r.exc:
            return mkres(case, nt=True, classes=['lookup'], fails=[[drive.crash_sig(r) + '-lookup', r.brief()]])
        tr = report.TextReport(r.out)
        for c in cats:
            want = ref_notes(db, c, name)
            got = got_notes(tr.findings(), c, name)
            if name not in tr.names(c):
                fails.append(['lookup-omits-known-name', '%s %s: %r' % (c, name, r.out[-300:])])
            elif got != want:
                fails.append(['lookup-notes-differ-from-table', '%s %s: lookup shows %r, table says %r' % (c, name, got, want)])
        if not cats:
            if name not in r.out or 'unknown algorithms' not in r.out or r.code != 3:
                fails.append(['lookup-unknown-not-flagged', r.brief()])
            if tr.has_algorithm_report():
                fails.append(['lookup-unknown-presented-as-rated', r.out[-300:]])
        return mkres(case, key='lookup:' + name, nt=True, classes=['lookup', 'known' if cats else 'unknown'], fails=fails)
    cat, name, role = case['cat'], case['name'], case['role']
    lists = {c: list(case['lists'][c]) for c in CATS}
    pos = lists[cat].index(name)
    spec = {'banner': case.get('banner', 'SSH-2.0-OpenSSH_8.0'), 'kex': lists['kex'], 'key': lists['key'], 'enc': lists['enc'], 'mac': lists['mac'], 'enc_c': case.get('enc_c'), 'mac_c': case.get('mac_c')}
    # Terrapin context of the target, by the published rule
    has_marker, vs, exposed = c04.reference({'role': role, 'kex': lists['kex'], 'enc': lists['enc'], 'mac': lists['mac']})
    want = ref_notes(db, cat, name)
    affected = exposed and name in vs and ((cat == 'enc' and (refmodel.is_chacha(name) or refmodel.is_cbc(name))) or (cat == 'mac' and refmodel.is_etm(name)))
    if want is not None and affected:
        want['warn'][TWTEXT] += 1
    views = {}
    for view in ('text', 'json'):
        peer = fakenet.Server(spec)
        net = fakenet.FakeNet()
        base = ['-n'] + (['-j'] if view == 'json' else [])
        if role == 'server':
            net.add('h', 22, peer)
            r = drive.run_cli(base + ['--skip-rate-test', 'h'], net)
        else:
            net.pending_clients.append(peer)
            r = drive.run_cli(base + ['-c'], net)
        if r.exc or r.hang or r.code not in (0, 2, 3):
            fails.append([drive.crash_sig(r) if r.exc else 'no-report', r.brief()])
            continue
        if view == 'json':
            finds = report.JsonReport(json.loads(r.out)).findings()
        else:
            finds = report.TextReport(r.out).findings()
        disp = name.encode('latin-1').decode('utf-8', 'replace') if any(ord(ch) > 127 for ch in name) else name      # (names travel as latin-1 strings of their bytes; the report shows them decoded)
        got = got_notes(finds, cat, disp)
        views[view] = got
        n_occ = lists[cat].count(name)
        if n_occ > 1:
            # every occurrence must carry the same notes: compare the per-occurrence notes one by one
            if view == 'text':
                occ = [a for a in report.TextReport(r.out).algs.get(cat, []) if a['name'] == disp]
                per = [got_notes([(cat, disp, sev, t) for sev, t in a['notes']], cat, disp) for a in occ]
            else:
                occ = [e for e in json.loads(r.out).get(cat, []) if e['algorithm'] == disp]
                per = [got_notes([(cat, disp, sev, t) for sev in ('fail', 'warn', 'info') for t in e['notes'].get(sev, [])], cat, disp) for e in occ]
            if len(per) != n_occ or any(p != per[0] for p in per):
                fails.append(['occurrences-of-one-name-rated-differently-%s' % view, '%s %r x%d: %r' % (cat, name, n_occ, per)])
            got = per[0] if per else got
            # latitude: the Terrapin note may be attached once per advertised occurrence
            if got['warn'][TWTEXT] > 1:
                got['warn'][TWTEXT] = 1
        # the same name advertised in another category as well: each category rates it on its own
        for c2 in CATS:
            if c2 != cat and name in lists[c2]:
                w2 = ref_notes(db, c2, name)
                g2 = got_notes(finds, c2, disp)
                if w2 is None:
                    if not any('unknown algorithm' in t for sev in ('fail', 'warn') for t in g2[sev]):
                        fails.append(['unknown-name-not-flagged-in-second-category-%s' % view, '%s %r also in %s: notes there %r' % (cat, name, c2, dict(g2))])
        if want is None:
            flagged = any('unknown algorithm' in t for sev in ('fail', 'warn') for t in got[sev])
            if not flagged:
                fails.append(['unknown-name-not-flagged-%s' % view, '%s %r: notes %r' % (cat, name, got)])
            if view == 'text':
                # "never presented as good": the line must not be a bare name / info-only line
                if not got['fail'] and not got['warn']:
                    fails.append(['unknown-name-presented-as-good', '%s %r' % (cat, name)])
        else:
            if got != want:
                is_gss = cat == 'kex' and name.startswith('gss-')
                if is_gss and view == 'json' and got['fail'] == collections.Counter(['using unknown algorithm']) and not got['warn']:
                    sig = 'json-rates-gss-kex-as-unknown'
                else:
                    which = [sev for sev in ('fail', 'warn', 'info') if got[sev] != want[sev]]
                    sig = 'notes-differ-from-table-%s-%s' % (view, '+'.join(which))
                fails.append([sig, '%s %s (position %d of %d, role %s): shown %r, table+context says %r' % (cat, name, pos, len(lists[cat]), role, dict(got), dict(want))])
    is_gss = cat == 'kex' and name.startswith('gss-')
    nt = pos > 0 or sum(len(lists[c]) for c in CATS) >= 7 or is_gss or want is None
    cl = ['cat:' + cat, 'role:' + role, 'pos:%s' % ('first' if pos == 0 else ('last' if pos == len(lists[cat]) - 1 else 'middle')), 'unknown' if want is None else ('gss' if is_gss else 'known')]
    if affected:
        cl.append('terrapin-context')
    return mkres(case, nt=nt, classes=cl, fails=fails)


def build_case(cat, name, role, pos, neigh):
    """neigh: dict cat -> list of neighbour names (without the target)."""
    lists = {}
    for c in CATS:
        l = [x for x in neigh.get(c, []) if x != name or c != cat]
        if c == cat:
            p = min(pos, len(l))
            l = l[:p] + [name] + l[p:]
        if not l:
            l = [DEFAULTS[c]]
        lists[c] = list(dict.fromkeys(l))
    return {'kind': 'scan', 'cat': cat, 'name': name, 'role': role, 'lists': lists}


def strat_scan():
    def build(t):
        cat, idx, role, pos, nk, nh, ne, nm, kind, gss, unk, ugss, edges = t
        edge = edges[CATS.index(cat)]
        names = gens.db_names(cat)
        if kind == 'gss':
            cat, name = 'kex', gss
        elif kind == 'unknown-gss':
            cat, name = 'kex', ugss        # looks like a GSS key exchange but matches no family of the table
        elif kind == 'unknown-edge':
            name = edge        # a database name with a non-ASCII blank at one end: a different, unknown name
        elif kind == 'unknown-terrapin-shape':
            # a name the table does not know, of a shape the Terrapin rule speaks about, in a context where the rule bites
            shapes = [('enc', 'chacha20-poly1305@example.com'), ('enc', 'kuznyechik-cbc'), ('mac', 'hmac-foo-etm@openssh.com'), ('enc', 'foo256-cbc'), ('mac', 'umac-256-etm@openssh.com'), ('enc', 'chacha20-poly1305-v2@openssh.com')]
            cat, name = shapes[idx % len(shapes)]
            ne = ne + ['aes128-cbc']
            nm = nm + ['hmac-sha2-256-etm@openssh.com']
        elif kind == 'unknown':
            name = unk
        else:
            name = names[idx % len(names)]
        case = build_case(cat, name, role, pos, {'kex': nk, 'key': nh, 'enc': ne, 'mac': nm})
        if idx % 7 == 0:        # the target twice in its own list
            case['lists'][cat] = case['lists'][cat] + [name]
        if idx % 4 == 1 and role == 'server':        # the other direction advertises something else; the report is about one direction only
            # (server role only: for a client the direction that decides the Terrapin context is ambiguous, as in C04)
            case['enc_c'] = [x for x in case['lists']['enc'] if not refmodel.is_cbc(x)][:2] + ['aes128-ctr', 'aes256-cbc'][: 1 + idx % 2]
            case['mac_c'] = [x for x in case['lists']['mac'] if not refmodel.is_etm(x)][:2] + ['hmac-sha2-256', 'hmac-sha2-512-etm@openssh.com'][: 1 + (idx // 2) % 2]
        if idx % 5 == 0:        # and also advertised in another category
            c2 = CATS[(CATS.index(cat) + 1 + idx % 3) % 4]
            if name not in case['lists'][c2]:
                case['lists'][c2] = case['lists'][c2] + [name]
        return case
    nl = lambda c: st.lists(st.sampled_from(gens.db_names(c)), min_size=0, max_size=5, unique=True)
    return st.tuples(st.sampled_from(CATS), st.integers(0, 10000), st.sampled_from(['server', 'server', 'client']), st.integers(0, 5), nl('kex'), nl('key'), nl('enc'), nl('mac'),
                     st.sampled_from(['db'] * 6 + ['gss', 'gss', 'unknown', 'unknown-gss', 'unknown-terrapin-shape', 'unknown-edge']), gens.gss_name(), gens.unknown_name(20).filter(lambda s: not s.startswith('gss-')), gens.unknown_gss_name(),
                     st.tuples(*[gens.utf8_edge_name(c) for c in CATS])).map(build)


def valid_case(case):
    if case.get('kind') != 'scan':
        return True
    return all(len(case['lists'][c]) >= 1 for c in CATS) and case['name'] in case['lists'][case['cat']]


def run(ctx):
    db = gens.db()
    cases = []
    rng = ctx.rng
    # every database name once per placement class, with seeded neighbours
    for cat in CATS:
        names = gens.db_names(cat)
        for name in names:
            placements = [0] if ctx.quick else [0, 2, 5]
            for pos in placements:
                for role in (['server'] if ctx.quick else ['server', 'client']):
                    neigh = {c: rng.sample(gens.db_names(c), rng.randint(0, 4)) for c in CATS}
                    if ctx.quick:
                        pos = rng.choice([0, 1, 3, 5])
                        role = rng.choice(['server', 'server', 'client'])
                    cases.append(build_case(cat, name, role, pos, neigh))
            cases.append(build_case(cat, name, 'server', 0, {}))     # the singleton run
    for pfx in gens.gss_prefixes():
        for suffix in ('dZuIebMjgUqaxvbF7hDbAw==', 'A+b/9==', 'x'):
            neigh = {c: rng.sample(gens.db_names(c), 2) for c in CATS}
            cases.append(build_case('kex', pfx + suffix, rng.choice(['server', 'client']), rng.choice([0, 1, 2]), neigh))
    ctx.map(cases)
    look = [{'kind': 'lookup', 'name': n} for n in sorted({n for c in CATS for n in db[c]})]
    look += [{'kind': 'lookup', 'name': n} for n in ('no-such-algorithm', 'aes128-ctr-x', 'curve25519', 'hmac-sha9')]
    ctx.map(look)
    import itertools
    probed = []
    nb = sorted(PROBED_NEIGHBOURS)
    for name in sorted(HK) + sorted(RSA_TARGETS):
        for k in (1, 2):
            for combo in itertools.permutations([n for n in nb if not (name in RSA_TARGETS and n in RSA_TARGETS)], k):
                for split in range(k + 1):
                    probed.append({'kind': 'probed', 'cat': 'key', 'name': name, 'before': list(combo[:split]), 'after': list(combo[split:]), 'banner': 'SSH-2.0-OpenSSH_8.0'})
                    fk = [None, GEX256, 'diffie-hellman-group14-sha256', GEX1, 'ecdh-sha2-nistp256', 'diffie-hellman-group16-sha512', 'curve25519-sha256@libssh.org'][len(probed) % 7]
                    if fk:
                        probed.append({'kind': 'probed', 'cat': 'key', 'name': name, 'before': list(combo[:split]), 'after': list(combo[split:]), 'banner': 'SSH-2.0-OpenSSH_8.0', 'first_kex': fk})
    for name in (GEX1, GEX256):
        for mine in ([3072], [4096], [2048], [1024], [2048, 3072], []):
            for other in ([2048, 4096], [1024], [3072], [2048], []):
                for banner in ('SSH-2.0-OpenSSH_8.0', 'SSH-2.0-dropbear_2020.81'):
                    for order in (0, 1):
                        probed.append({'kind': 'probed', 'cat': 'kex', 'name': name, 'moduli': mine, 'other_moduli': other, 'banner': banner, 'order': order, 'style': 'openssh' if 'OpenSSH' in banner else 'roundup'})
                        if 'OpenSSH' in banner:
                            probed.append({'kind': 'probed', 'cat': 'kex', 'name': name, 'moduli': mine, 'other_moduli': other, 'banner': banner, 'order': order, 'style': 'roundup', 'other_style': 'openssh'})
    if ctx.quick:
        rng.shuffle(probed)
        probed = probed[:600]
    # certificate targets with a CA of every rating class: the size notes land in the severity they belong to, once
    W2K, ECN = '2048-bit modulus only provides 112-bits of symmetric strength', 'CA key uses elliptic curves that are suspected as being backdoored by the U.S. National Security Agency'
    for cert, inner, hb in (('ssh-ed25519-cert-v01@openssh.com', 'ssh-ed25519-cert-v01@openssh.com', 0), ('rsa-sha2-256-cert-v01@openssh.com', 'ssh-rsa-cert-v01@openssh.com', 4096), ('rsa-sha2-512-cert-v01@openssh.com', 'ssh-rsa-cert-v01@openssh.com', 3072), ('ssh-rsa-cert-v01@openssh.com', 'ssh-rsa-cert-v01@openssh.com', 4096)):
        for ca, extra in (({'t': 'rsa', 'bits': 4096}, {}), ({'t': 'rsa', 'bits': 2048}, {'warn': [W2K]}), ({'t': 'rsa', 'bits': 1024}, {'fail': ['using small 1024-bit CA key modulus']}), ({'t': 'ed25519'}, {}), ({'t': 'ecdsa', 'curve': 'nistp256'}, {'fail': [ECN]})):
            for nbs in ([], ['ssh-rsa'], ['rsa-sha2-512', 'ssh-ed25519']):
                probed.append({'kind': 'probed', 'cat': 'key', 'name': cert, 'before': nbs[:1], 'after': nbs[1:], 'banner': 'SSH-2.0-OpenSSH_8.0', 'target_blob': {'t': 'cert', 'kind': inner, 'bits': hb, 'ca': ca}, 'expect_extra': extra})
    ctx.map(probed)
    ctx.hyp('strat_scan', 8000 if ctx.quick else 100000, label=1)
    ctx.exhaustive = True
    ctx.note(database_names=sum(len(gens.db_names(c)) for c in CATS), lookups=len(look), explanation='exhaustive flag: every database name of every category is audited at least once in text and JSON and looked up once')
    return ctx.finish('exploration', 'every database name of every category (exhaustive) at seeded list positions among seeded neighbours plus its singleton run, every gss-* prefix with three suffixes, --lookup of every name, Hypothesis scans (db / gss / unknown target, random position, neighbours, role); each scan rendered as text and JSON; non-trivial = target not first, or >= 7 names in total, or gss / unknown target, or a lookup',
                      assumptions=['in the table-reference families no probe is answered, so no measured attribute enters (the probed family compares a run with itself beside measured neighbours); Terrapin context is added to the expectation by the published rule (C04)'])

"""C01 — the report lists exactly the algorithms the peer advertised.

Whole CLI (engine A).  The KEXINIT / SSH-1 public-key message is built by vlib/wire.py from
generated name-lists; the expected report is derived from those lists alone.
"""
import json

from hypothesis import strategies as st

from vlib import fakenet, drive, report, wire, gens
from vlib.runner import mkres

ID = 'C01'
RENDERINGS = [['-n'], ['-n', '-b'], ['-n', '-v'], ['-n', '-b', '-v'], ['-n', '-j'], ['-n', '-jj']]
CATS = ('kex', 'key', 'enc', 'mac')


def decode_list(names):
    """What 'the names the peer advertised' are, read off the wire: the list body decoded as UTF-8
    (invalid bytes shown as U+FFFD), split on commas."""
    body = b','.join(fakenet.j2b(n) for n in names)
    return body.decode('utf-8', 'replace').split(',')


def collapse(seq):
    out = []
    for x in seq:
        if not out or out[-1] != x:
            out.append(x)
    return out


def eval_ab(case):
    """Engine B replay of a server-role case: byte-identical output expected from the real process."""
    from vlib import abcheck
    L = case['lists']
    B = lambda l: [fakenet.j2b(x) for x in l]
    payload = wire.kexinit(B(L[0]), B(L[1]), B(L[3]), B(L[5]), B(L[7]), enc_c=B(L[2]), mac_c=B(L[4]), comp_c=B(L[6]))
    spec = {'kexinit_raw': fakenet.b2j(payload), 'banner': 'SSH-2.0-OpenSSH_8.9p1 Ubuntu-3', 'hostkeys': {'ssh-ed25519': {'t': 'ed25519'}, 'ssh-rsa': {'t': 'rsa', 'bits': 2048}}, 'moduli': [2048], 'gex_style': 'roundup'}
    ra, rb, pa, pb, eof = abcheck.run_both(spec, case['opts'])
    agree = abcheck.assert_agree(ra, rb, 'C01 %r' % (case['opts'],))
    r = eval_case(dict(case, kind=None, role='server', probes=False))
    return mkres(case, nt=True, classes=['engine-B'] + ([] if agree else ['AB-disagree']), fails=r['fails'])


def eval_case(case):
    if case.get('kind') == 'ab':
        return eval_ab(case)
    if case.get('proto', 2) == 1:
        return eval_ssh1(case)
    L = case['lists']           # kex, key, enc_c2s, enc_s2c, mac_c2s, mac_s2c, comp_c2s, comp_s2c
    role, opts = case['role'], case['opts']
    B = lambda l: [fakenet.j2b(x) for x in l]
    tail = case.get('tail') or {}      # the fields of the message that carry no algorithm names
    payload = wire.kexinit(B(L[0]), B(L[1]), B(L[3]), B(L[5]), B(L[7]), enc_c=B(L[2]), mac_c=B(L[4]), comp_c=B(L[6]), lang=B(tail.get('lang', [''])), lang_c=B(tail.get('lang_c', tail.get('lang', ['']))),
                           follows=bool(tail.get('follows')), reserved=tail.get('reserved', 0), cookie=fakenet.j2b(tail.get('cookie', '\x00' * 16)))
    spec = {'kexinit_raw': fakenet.b2j(payload), 'banner': case.get('banner', 'SSH-2.0-OpenSSH_8.9p1 Ubuntu-3')}
    if case.get('pad') is not None:
        # any padding length 4..255 that keeps the packet a multiple of 8 is legal (RFC 4253 section 6)
        base = -(len(payload) + 5) % 8
        if base < 4:
            base += 8
        spec['kexinit_pad'] = min(base + 8 * case['pad'], base + 8 * ((255 - base) // 8))
    if case.get('probes'):
        spec['hostkeys'] = {'ssh-rsa': {'t': 'rsa', 'bits': 2048}, 'rsa-sha2-256': {'t': 'rsa', 'bits': 2048}, 'rsa-sha2-512': {'t': 'rsa', 'bits': 2048}, 'ssh-ed25519': {'t': 'ed25519'},
                            'ssh-rsa-cert-v01@openssh.com': {'t': 'cert', 'kind': 'ssh-rsa-cert-v01@openssh.com', 'bits': 3072, 'ca': {'t': 'rsa', 'bits': 4096}}}
        spec['moduli'] = [2048, 4096]
        spec['gex_style'] = 'roundup'
        # names the probe table does not list but that look like its entries are answered too (with a well-formed certificate)
        for n in L[1]:
            if '-cert-v' in n and n not in spec['hostkeys']:
                spec['hostkeys'][n] = {'t': 'cert', 'kind': 'ssh-ed25519-cert-v01@openssh.com', 'ca': {'t': 'ed25519'}}
    seg = 0
    if case.get('delivery'):
        # text in front of the identification string, and TCP segments that end inside that string
        d = case['delivery']
        spec['pre'] = d['pre']
        seg = len(d['pre']) + d['cut'] if d['cut'] > 0 else -d['cut']
    peer = fakenet.Server(spec)
    net = fakenet.FakeNet(segment=seg)
    if role == 'server':
        net.add('h', 22, peer)
        argv = opts + ['--skip-rate-test', 'h']
    else:
        net.pending_clients.append(peer)
        argv = opts + ['-c']
    r = drive.run_cli(argv, net)
    fails = []
    flat = [n for l in L for n in l]
    asym = L[2] != L[3] or L[4] != L[5]
    cl = ['role:' + role, 'render:' + ' '.join(opts[1:] or ['plain'])]
    feats = {'gss': any(n.startswith('gss-') for n in L[0]), 'unknown': False, 'dup': any(len(set(l)) != len(l) for l in L[:6]), 'empty-elem': any('' in l and len(l) > 1 for l in L[:6]),
             'empty-list': any(l in ([], ['']) for l in L[:6]), 'non-utf8': any(ord(c) >= 0x80 for n in flat for c in n), 'asym': asym, 'client': role == 'client', 'probes': bool(case.get('probes')), 'long': any(len(n) > 100 for n in flat), 'long-list': any(len(l) > 200 for l in L), 'long-padding': (case.get('pad') or 0) > 8, 'pre-banner-text-and-split-delivery': bool(case.get('delivery'))}
    dbn = {c: set(gens.db_names(c)) for c in CATS}
    feats['unknown'] = any(n and n not in dbn[c] and not n.startswith('gss-') for c, l in zip(CATS, (L[0], L[1], L[3], L[5])) for n in l)
    cl += [k for k, v in feats.items() if v]
    nt = any(feats.values())
    if r.exc or r.hang:
        fails.append([drive.crash_sig(r) if r.exc else 'hang', r.brief()])
        return mkres(case, nt=nt, classes=cl + ['crashed'], fails=fails)
    if r.code not in (0, 2, 3):
        fails.append(['no-report-for-wellformed-kexinit', r.brief()])
        return mkres(case, nt=nt, classes=cl, fails=fails)
    exp = {'kex': decode_list(L[0]), 'key': decode_list(L[1])}
    exp_dir = {'s2c': {'enc': decode_list(L[3]), 'mac': decode_list(L[5]), 'comp': decode_list(L[7])}, 'c2s': {'enc': decode_list(L[2]), 'mac': decode_list(L[4]), 'comp': decode_list(L[6])}}
    is_json = '-j' in opts or '-jj' in opts
    verbose = '-v' in opts
    if is_json:
        try:
            doc = json.loads(r.out)
        except ValueError:
            fails.append(['json-unparseable', r.out[-300:]])
            return mkres(case, nt=nt, classes=cl, fails=fails)
        got = {c: [e['algorithm'] for e in doc.get(c, [])] for c in CATS}
        norm = lambda l: [x for x in l if x != '']
        gcomp = doc.get('compression')
        banner_got = (doc.get('banner') or {}).get('raw')
    else:
        tr = report.TextReport(r.out, verbose=verbose)
        got = {c: tr.names(c) for c in CATS}
        norm = (lambda l: collapse([x for x in l if x != ''])) if verbose else (lambda l: [x for x in l if x != ''])
        gcomp = None
        ctext = (tr.gen.get('compression') or [None])[0]
        banner_got = (tr.gen.get('banner') or [None])[0]
    for c in ('kex', 'key'):
        if norm(got[c]) != norm(exp[c]):
            fails.append(['names-%s-%s' % (c, 'json' if is_json else 'text'), 'reported %r, advertised %r (opts %r role %s)' % (got[c][:12], exp[c][:12], opts, role)])
    # ciphers and MACs: one direction, the same for both categories
    ok_dirs = [d for d in ('s2c', 'c2s') if norm(got['enc']) == norm(exp_dir[d]['enc']) and norm(got['mac']) == norm(exp_dir[d]['mac'])]
    if not ok_dirs:
        which = 'enc' if not any(norm(got['enc']) == norm(exp_dir[d]['enc']) for d in exp_dir) else 'mac'
        fails.append(['names-%s-%s' % (which, 'json' if is_json else 'text'), 'reported enc %r mac %r; advertised s2c %r / c2s %r (opts %r role %s)' % (got['enc'][:10], got['mac'][:10], exp_dir['s2c'], exp_dir['c2s'], opts, role)])
    # text and JSON must show the same direction: re-render the asymmetric case the other way
    if asym and ok_dirs and not case.get('_second'):
        other = dict(case, opts=(['-n'] if is_json else ['-n', '-j']), _second=True)
        r2 = eval_case(other)
        d2 = r2.get('info')
        if d2 is not None and d2 and not (set(d2) & set(ok_dirs)):
            fails.append(['direction-differs-between-text-and-json', 'rendering %r shows %r, the other rendering shows %r' % (opts, ok_dirs, d2)])
    # compression as sent
    if is_json:
        if gcomp not in (exp_dir['s2c']['comp'], exp_dir['c2s']['comp']):
            fails.append(['compression-json', 'reported %r, advertised %r / %r' % (gcomp, exp_dir['s2c']['comp'], exp_dir['c2s']['comp'])])
    else:
        okc = False
        for d in exp_dir:
            nn = [x for x in exp_dir[d]['comp'] if x != 'none']
            want = 'enabled (%s)' % ', '.join(nn) if nn else 'disabled'
            okc = okc or ctext == want
        if not okc:
            fails.append(['compression-text', 'reported %r, advertised %r / %r' % (ctext, exp_dir['s2c']['comp'], exp_dir['c2s']['comp'])])
    if banner_got != spec['banner']:
        fails.append(['banner-as-sent', 'reported %r, sent %r' % (banner_got, spec['banner'])])
    return mkres(case, nt=nt, classes=cl, fails=fails, info=ok_dirs)


def eval_ssh1(case):
    cm, am, opts = case['cmask'], case['amask'], case['opts']
    peer = fakenet.Ssh1Server(cmask=cm, amask=am, skey_bits=case.get('skey_bits', 768), hkey_bits=case.get('hkey_bits', 1024))
    net = fakenet.FakeNet()
    net.add('h', 22, peer)
    argv = opts + (['-1'] if case.get('flag1') else []) + ['--skip-rate-test', 'h']
    r = drive.run_cli(argv, net)
    fails = []
    exp_enc = [wire.SSH1_CIPHERS[i] for i in range(7) if cm >> i & 1]
    exp_aut = [wire.SSH1_AUTHS[i] for i in range(1, 7) if am >> i & 1]
    cl = ['ssh1', 'render:' + ' '.join(opts[1:] or ['plain'])] + (['-1'] if case.get('flag1') else ['fallback-from-2'])
    if not exp_enc:
        cl.append('ssh1-empty-cipher-mask')
    if not exp_aut:
        cl.append('ssh1-empty-auth-mask')
    if r.exc or r.hang:
        sig = drive.crash_sig(r) if r.exc else 'hang'
        if r.exc and (not exp_enc or not exp_aut):
            sig += '-ssh1-empty-mask'
        fails.append([sig, r.brief()])
        return mkres(case, nt=True, classes=cl + ['crashed'], fails=fails)
    is_json = '-j' in opts or '-jj' in opts
    if is_json:
        try:
            doc = json.loads(r.out)
        except ValueError:
            fails.append(['ssh1-json-unparseable', r.out[-300:]])
            return mkres(case, nt=True, classes=cl, fails=fails)
        if doc.get('enc') != exp_enc or doc.get('aut') != exp_aut:
            sig = 'ssh1-json-lists-null' if doc.get('enc') is None and doc.get('aut') is None else 'ssh1-json-lists'
            fails.append([sig, 'reported enc %r aut %r; advertised %r / %r' % (doc.get('enc'), doc.get('aut'), exp_enc, exp_aut)])
    else:
        tr = report.TextReport(r.out, verbose='-v' in opts)
        n = collapse if '-v' in opts else (lambda l: l)
        if n(tr.names('enc')) != n(exp_enc) or n(tr.names('aut')) != n(exp_aut):
            fails.append(['ssh1-text-lists', 'reported enc %r aut %r; advertised %r / %r (exit %d)' % (tr.names('enc'), tr.names('aut'), exp_enc, exp_aut, r.code)])
        if tr.names('key') != ['ssh-rsa1']:
            fails.append(['ssh1-text-hostkey', repr(tr.names('key'))])
    return mkres(case, nt=True, classes=cl, fails=fails)


# --------------------------------------------------------------------------------- generators

def strat_kexinit():
    def build(t):
        kex, key, enc, mac, enc2, mac2, comp, comp2, asym, role, opts, probes, longname, tail = t
        if longname is not None:
            kex = kex + [longname]
        lists = [kex, key, enc2 if asym else enc, enc, mac2 if asym else mac, mac, comp2 if asym else comp, comp]
        extra = {}
        if longname is None and len(kex) + len(mac) == 7:
            extra['pad'] = (len(enc) * 7 + len(key) * 3) % 32          # long (legal) packet padding
        if longname is None and len(kex) + len(enc) == 9:
            # a very long name-list: several hundred names in one category
            which = [0, 1, 3, 5][len(key) % 4]
            lists[which] = lists[which] + ['n%03d@example.com' % i for i in range(250 + 37 * len(mac))]
            if which == 3 and not asym:
                lists[2] = lists[3]
            if which == 5 and not asym:
                lists[4] = lists[5]
        # an empty list is advertised as the empty string
        if tail is not None:
            extra['tail'] = tail
        if longname is None and (len(kex) * 5 + len(enc) * 3 + len(mac)) % 11 == 0:
            extra['delivery'] = {'pre': ['Welcome\r\n', '\r\n', 'notice line one\r\nnotice line two\r\n', '*** authorised use only ***\n'][len(key) % 4], 'cut': [3, 9, 12, 20, 33, -7, -64, 1][(len(kex) + len(mac)) % 8]}
        return dict({'proto': 2, 'role': role, 'opts': opts, 'probes': probes and role == 'server', 'lists': lists}, **extra)
    tails = st.sampled_from([{'follows': True}, {'reserved': 0xffffffff}, {'reserved': 1, 'follows': True}, {'lang': ['en-US']}, {'lang': ['en-US', 'de-DE'], 'lang_c': ['fr']}, {'lang': ['aes128-cbc', 'hmac-md5']},
                             {'cookie': '\xff' * 16}, {'cookie': 'SSH-2.0-cookie\r\n', 'follows': True, 'reserved': 0x80000000, 'lang': ['x' * 300]}])
    comp = st.lists(st.sampled_from(['none', 'zlib', 'zlib@openssh.com']), min_size=1, max_size=3, unique=True)
    return st.tuples(gens.namelist('kex'), gens.namelist('key'), gens.namelist('enc'), gens.namelist('mac'), gens.namelist('enc'), gens.namelist('mac'), comp, comp,
                     st.sampled_from([False, False, False, False, True]), st.sampled_from(['server', 'server', 'client']), st.sampled_from(RENDERINGS), st.sampled_from([False, False, True]),
                     st.one_of(st.none(), st.none(), st.none(), st.none(), st.none(), st.none(), st.none(), st.none(), gens.long_name()), st.one_of(st.none(), st.none(), st.none(), tails)).map(build)


def strat_probe_lists():
    """Lists over probe-able database names so that size suffixes appear next to the names."""
    def build(t):
        kex, key, opts, enc, mac, comp = t
        return {'proto': 2, 'role': 'server', 'opts': opts, 'probes': True, 'lists': [kex, key, enc, enc, mac, mac, comp, comp]}
    kexes = st.lists(st.sampled_from(['diffie-hellman-group-exchange-sha256', 'diffie-hellman-group-exchange-sha1', 'curve25519-sha256', 'diffie-hellman-group14-sha256', 'ecdh-sha2-nistp256', 'gss-gex-sha1-dZuIebMjgUqaxvbF7hDbAw==', 'sntrup761x25519-sha512@openssh.com']), min_size=1, max_size=5)
    keys = st.lists(st.sampled_from(['ssh-rsa', 'rsa-sha2-256', 'rsa-sha2-512', 'ssh-ed25519', 'ssh-rsa-cert-v01@openssh.com', 'ecdsa-sha2-nistp256', 'ssh-dss', 'unknown-key-type', 'ssh-ed25519-cert-v02@openssh.com', 'ssh-rsa-cert-v02@openssh.com', 'ssh-ed448-cert-v01@openssh.com']), min_size=1, max_size=6)
    comp = st.lists(st.sampled_from(['none', 'zlib', 'zlib@openssh.com']), min_size=1, max_size=3, unique=True)
    return st.tuples(kexes, keys, st.sampled_from(RENDERINGS), gens.namelist('enc', min_size=1, max_size=3, empty=False, weird=False), gens.namelist('mac', min_size=1, max_size=3, empty=False, weird=False), comp).map(build)


def valid_case(case):
    if case.get('proto', 2) == 1:
        return True
    return len(case['lists']) == 8 and all(',' not in n and ' ' not in n for l in case['lists'] for n in l) and len(case['opts']) >= 1


def run(ctx):
    n = 15000 if ctx.quick else 150000
    ctx.hyp('strat_kexinit', n, label=1)
    ctx.hyp('strat_probe_lists', 3000 if ctx.quick else 30000, label=2)
    ssh1 = []
    masks = [(c, a) for c in range(128) for a in range(128)]
    if ctx.quick:
        ctx.rng.shuffle(masks)
        masks = masks[:4000] + [(0, 0), (0, 12), (72, 0), (127, 127)]
    for i, (c, a) in enumerate(masks):
        opts = RENDERINGS[i % len(RENDERINGS)]
        ssh1.append({'proto': 1, 'cmask': c, 'amask': a, 'opts': opts, 'flag1': bool(i % 2)})
    for c, a in [(0x48 | 0xffffff80, 0x0c | 0xffffff80), (0xffffffff, 0xffffffff), (0x80, 0x81)]:
        for opts in RENDERINGS:
            ssh1.append({'proto': 1, 'cmask': c, 'amask': a, 'opts': opts, 'flag1': True})
    # key sizes: the length of the message (and with it the amount of packet padding, 1..8 bytes) follows from them
    for i, (sk, hk) in enumerate((sk, hk) for sk in (512, 768, 776, 784, 1024, 1023) for hk in (1024, 1032, 1040, 1048, 1056, 1064, 1072, 1080, 2048, 4096, 1025)):
        ssh1.append({'proto': 1, 'cmask': 0x4c, 'amask': 0x2c, 'opts': RENDERINGS[i % len(RENDERINGS)], 'flag1': bool(i % 2), 'skey_bits': sk, 'hkey_bits': hk})
    ctx.map(ssh1)
    # engine-B sample over deterministic peers drawn from the table (names incl. gss-*, unknown, duplicates)
    ab = []
    for i in range(10 if ctx.quick else 150):
        r = ctx.rng
        def pick(cat):
            names = gens.db_names(cat)
            return [r.choice(names) for _ in range(r.randint(1, 4))]
        kex = pick('kex') + r.sample(['gss-gex-sha1-dZuIebMjgUqaxvbF7hDbAw==', 'unknown-kex@example.com', 'diffie-hellman-group-exchange-sha256', 'curve25519-sha256'], 2)
        key = pick('key') + r.sample(['ssh-rsa', 'ssh-ed25519', 'made-up-key'], 2)
        enc, mac = pick('enc') + [r.choice(['aes128-ctr', 'x-cipher'])], pick('mac')
        ab.append({'kind': 'ab', 'proto': 2, 'lists': [kex, key, enc, enc, mac, mac, ['none'], ['none']], 'opts': RENDERINGS[i % len(RENDERINGS)]})
    ctx.map(ab, chunk=1)
    ctx.note(traces_validated_against_impl=len(ab))
    ctx.note(ssh1_mask_cases=len(ssh1), ssh1_masks_exhaustive=not ctx.quick)
    return ctx.finish('exploration', 'KEXINIT payloads from ten Hypothesis name-lists (database names, gss-* with base64 suffixes, unknown RFC 4251 names, non-UTF-8 bytes, duplicates, empty elements/lists, very long names; 20% asymmetric directions), server and client role, six renderings, 30% with probes answered; SSH-1 cipher x authentication masks (all 128x128 in thorough); non-trivial = any of gss/unknown/duplicate/empty/non-UTF-8/asymmetric/client/probes/long, or SSH-1',
                      assumptions=['names are RFC 4251 names (no comma, space or control characters); invalid UTF-8 is shown as U+FFFD', 'for ciphers/MACs either advertised direction is accepted, the same one for both'])

"""C15 — output options change presentation only, never findings or verdict.

For each generated peer the whole CLI is run under every combination of -b, -v, -n, -l, -j/-jj
(36 option sets) and the renderings are compared with one another and with a reference computed
from the table; a sample runs as a real process under several PYTHONHASHSEED values.
"""
import collections
import itertools
import json
import os

from hypothesis import strategies as st

from vlib import fakenet, drive, report, refmodel, gens
from vlib.runner import mkres
from checks import c03, c04

ID = 'C15'
CATS = ('kex', 'key', 'enc', 'mac')
LEVELS = ('info', 'warn', 'fail')
RANK = {'info': 0, 'warn': 1, 'fail': 2}
TEXT_SETS = [dict(b=b, v=v, n=n, l=l) for b in (0, 1) for v in (0, 1) for n in (0, 1) for l in LEVELS]
JSON_SETS = [dict(jj=jj, v=v, l=l) for jj in (0, 1) for v in (0, 1) for l in LEVELS]


def text_argv(o):
    return (['-b'] if o['b'] else []) + (['-v'] if o['v'] else []) + (['-n'] if o['n'] else []) + ['-l', o['l']]


def json_argv(o):
    return ['-jj' if o['jj'] else '-j'] + (['-v'] if o['v'] else []) + ['-l', o['l']]


def run_peer(spec, role, argv):
    peer = fakenet.Server(spec)
    net = fakenet.FakeNet()
    if role == 'server':
        net.add('h', 22, peer)
        return drive.run_cli(argv + ['--skip-rate-test', 'h'], net)
    net.pending_clients.append(peer)
    return drive.run_cli(argv + ['-c'], net)


def _canon_findings(fs):
    return [(c, n, sev, c03.TWTEXT if ('Terrapin' in t and 'pseudo-algorithm' not in t) else t) for c, n, sev, t in fs]


def is_subsequence(small, big):
    it = iter(big)
    return all(any(x == y for y in it) for x in small)


POLICY_PEER = {'banner': 'SSH-2.0-OpenSSH_9.3', 'kex': ['curve25519-sha256', 'diffie-hellman-group-exchange-sha256'], 'key': ['rsa-sha2-512', 'ssh-ed25519'], 'enc': ['aes256-gcm@openssh.com', 'aes128-ctr'], 'mac': ['hmac-sha2-256-etm@openssh.com'],
               'hostkeys': dict({k: {'t': 'rsa', 'bits': 3072} for k in ('ssh-rsa', 'rsa-sha2-256', 'rsa-sha2-512')}, **{'ssh-ed25519': {'t': 'ed25519'}}), 'moduli': [3072], 'gex_style': 'roundup'}


def eval_policy(case):
    """Policy audits: the verdict and the exit status are the same under every output option, and with -j / -jj stdout
    is one JSON document (whatever the policy file makes the tool say on the side)."""
    import os
    from checks import c06
    pol = {'kex': POLICY_PEER['kex'], 'key': POLICY_PEER['key'], 'enc': POLICY_PEER['enc'], 'mac': POLICY_PEER['mac'] if not case['drift'] else ['hmac-sha2-512-etm@openssh.com'],
           'hks': {'rsa-sha2-512': {'hostkey_size': case['rsa']}, 'ssh-ed25519': {'hostkey_size': 256}}, 'dh': {'diffie-hellman-group-exchange-sha256': case['dh']}, 'larger': case['larger'], 'legacy': case['legacy']}
    path = drive.tmpfile(c06.policy_text(pol))
    fails, seen = [], {}
    try:
        for name, opts in (('text', ['-n']), ('colour', []), ('batch', ['-b']), ('verbose', ['-n', '-v']), ('level', ['-n', '-l', 'fail']), ('json', ['-j']), ('json-indent', ['-jj']), ('json-v', ['-j', '-v']), ('json-level', ['-j', '-l', 'fail'])):
            net = fakenet.FakeNet()
            net.add('h', 22, fakenet.Server(POLICY_PEER))
            r = drive.run_cli(opts + ['-P', path, '--skip-rate-test', 'h'], net)
            if r.exc or r.hang:
                fails.append([drive.crash_sig(r) if r.exc else 'hang', r.brief()])
                continue
            if name.startswith('json'):
                try:
                    d = json.loads(r.out)
                except ValueError:
                    fails.append(['policy-json-stdout-not-one-document', '%s, policy %s: %r' % (name, 'older directives' if case['legacy'] else 'current syntax', r.out[:200])])
                    continue
                seen[name] = (r.code, d.get('passed'), tuple(sorted(e['mismatched_field'] for e in d.get('errors', []))), json.dumps(d, sort_keys=True))
            else:
                pr = report.policy_result(r.out)
                seen[name] = (r.code, pr['passed'], tuple(sorted(pr['error_fields'])), None)
    finally:
        os.unlink(path)
    if 'level' in seen:
        # a minimum level hides the lines below it (the verdict line of a passing audit among them): only the status is comparable
        lv = seen.pop('level')
        if seen and lv[0] != next(iter(seen.values()))[0]:
            fails.append(['policy-verdict-depends-on-output-option', 'exit %d with -l fail, %d without' % (lv[0], next(iter(seen.values()))[0])])
    if len({v[:3] for v in seen.values()}) > 1:
        fails.append(['policy-verdict-depends-on-output-option', repr({k: v[:3] for k, v in seen.items()})])
    docs = {v[3] for k, v in seen.items() if v[3] is not None}
    if len(docs) > 1:
        fails.append(['policy-json-documents-differ', repr(sorted(docs))[:400]])
    return mkres(case, nt=True, classes=['policy-audit', 'older-directives' if case['legacy'] else 'current-syntax', 'drift' if case['drift'] else 'match'], fails=fails)


def eval_case(case):
    if case['kind'] == 'subproc':
        return eval_subproc(case)
    if case['kind'] == 'policy':
        return eval_policy(case)
    lists, role = case['lists'], case['role']
    spec = {'banner': case.get('banner', 'SSH-2.0-OpenSSH_8.4p1 Debian-5'), 'kex': lists['kex'], 'key': lists['key'], 'enc': lists['enc'], 'mac': lists['mac']}
    if case.get('asym'):
        # the other direction advertises something else; reports are about the server-to-client lists in every view
        # (the extra names are outside the Terrapin classes, so that context is the same in both directions)
        spec['enc_c'] = ['arcfour'] + lists['enc'][::-1]
        spec['mac_c'] = lists['mac'][::-1] + ['hmac-sha1']
    if case.get('chatty'):
        # the probes are answered, each reply preceded by a debug message whose text is not ASCII (showing it or not is presentation)
        spec['hostkeys'] = {'ssh-ed25519': {'t': 'ed25519'}, 'ssh-rsa': {'t': 'rsa', 'bits': 1024}, 'rsa-sha2-256': {'t': 'rsa', 'bits': 1024}, 'rsa-sha2-512': {'t': 'rsa', 'bits': 1024}}
        spec['moduli'] = [1024, 3072]
        spec['gex_style'] = 'roundup'
        spec['chatter'] = {'kexdh_reply': 1, 'gex_group': 1, 'gex_reply': 2}
        spec['chatter_text'] = 'd\u00e9bogage: cl\u00e9 \u2603 \U0001f511'.encode('utf-8').decode('latin-1')
    if case.get('comp'):
        spec['comp'] = case['comp']
    if case.get('probe_trouble'):
        # the follow-up connections of the probes run into trouble (refused / closed / silent); what is said about it is presentation
        spec['faults'] = [[w, i, f] for (w, f) in [case['probe_trouble']] for i in range(1, 30)]
    fails = []
    db = gens.db()
    runs = {}
    codes = {}
    for o in TEXT_SETS:
        key = ('t', o['b'], o['v'], o['n'], o['l'])
        r = run_peer(spec, role, text_argv(o))
        if r.exc or r.hang:
            fails.append([drive.crash_sig(r) if r.exc else 'hang', r.brief()])
            return mkres(case, nt=True, classes=['crashed'], fails=fails)
        runs[key] = r
        codes[key] = r.code
    for o in JSON_SETS:
        key = ('j', o['jj'], o['v'], o['l'])
        r = run_peer(spec, role, ['-n'] + json_argv(o))
        if r.exc or r.hang:
            fails.append([drive.crash_sig(r) if r.exc else 'hang', r.brief()])
            return mkres(case, nt=True, classes=['crashed'], fails=fails)
        runs[key] = r
        codes[key] = r.code
    # 1. exit status identical across all option sets
    if len(set(codes.values())) != 1:
        by = collections.defaultdict(list)
        for k, c in codes.items():
            by[c].append(k)
        minority = min(by.values(), key=len)
        fails.append(['exit-status-depends-on-options', 'codes %r; e.g. %r' % ({c: len(v) for c, v in by.items()}, minority[:3])])
    # 2. findings identical across text renderings at level info, and equal to the table reference
    ref = None
    for (kind, *rest), r in runs.items():
        if kind != 't':
            continue
        b, v, n, l = rest
        tr = report.TextReport(r.out, verbose=bool(v))
        f = collections.Counter(_canon_findings(tr.findings()))
        if l == 'info':
            if ref is None:
                ref, ref_key = f, (b, v, n)
            elif f != ref:
                diff = list((f - ref).items())[:3] + list((ref - f).items())[:3]
                fails.append(['findings-differ-between-text-renderings', 'b=%d v=%d n=%d vs b=%d v=%d n=%d: %r' % (b, v, n, *ref_key, diff)])
    # table reference (no probes answered)
    if ref is not None:
        has_marker, vs, exposed = c04.reference({'role': role, 'kex': lists['kex'], 'enc': lists['enc'], 'mac': lists['mac']})
        want = collections.Counter()
        for c in CATS:
            for name in lists[c]:
                w = c03.ref_notes(db, c, name)
                if w is None:
                    want[(c, name, 'warn', 'unknown algorithm')] += 1
                    continue
                if exposed and name in vs and ((c == 'enc' and (refmodel.is_chacha(name) or refmodel.is_cbc(name))) or (c == 'mac' and refmodel.is_etm(name))):
                    w['warn'][c03.TWTEXT] += 1
                for sev in ('fail', 'warn', 'info'):
                    for t, k in w[sev].items():
                        want[(c, name, sev, t)] += k
        if ref != want and not case.get('chatty'):       # (with the probes answered the measurements add notes of their own: there the renderings are compared with each other only)
            diff = list((ref - want).items())[:3] + list((want - ref).items())[:3]
            fails.append(['text-findings-differ-from-table', repr(diff)])
    # 3. level filtering: findings at level L are exactly those with severity >= L; lines are a subsequence
    for b, v, n in itertools.product((0, 1), repeat=3):
        base = runs[('t', b, v, n, 'info')]
        base_lines = report.TextReport(base.out).nonblank if not n else [x for x in base.out.split('\n') if x.strip()]
        base_lines_raw = [x for x in base.out.split('\n') if x.strip()]
        fbase = collections.Counter(_canon_findings(report.TextReport(base.out, verbose=bool(v)).findings()))
        for l in ('warn', 'fail'):
            r = runs[('t', b, v, n, l)]
            lines = [x for x in r.out.split('\n') if x.strip()]
            if not is_subsequence(lines, base_lines_raw):
                extra = [x for x in lines if x not in base_lines_raw][:3]
                fails.append(['raising-level-adds-or-alters-lines', 'b=%d v=%d n=%d -l %s: %r' % (b, v, n, l, extra)])
            f = collections.Counter(_canon_findings(report.TextReport(r.out, verbose=bool(v)).findings()))
            wantf = collections.Counter({k: c for k, c in fbase.items() if RANK[k[2]] >= RANK[l]})
            if f != wantf:
                diff = list((f - wantf).items())[:3] + list((wantf - f).items())[:3]
                fails.append(['level-filter-findings', 'b=%d v=%d n=%d -l %s: %r' % (b, v, n, l, diff)])
    # 4. colour stripped => same multiset of lines
    for b, v, l in itertools.product((0, 1), (0, 1), LEVELS):
        a = collections.Counter(x for x in report.strip_ansi(runs[('t', b, v, 0, l)].out).split('\n') if x.strip())
        c = collections.Counter(x for x in runs[('t', b, v, 1, l)].out.split('\n') if x.strip())
        if a != c:
            diff = list((a - c).items())[:2] + list((c - a).items())[:2]
            fails.append(['colour-changes-content', 'b=%d v=%d -l %s: %r' % (b, v, l, diff)])
    # 5. JSON: one document, compact == indented, independent of -v / -l, findings equal the text's for known names
    docs = {}
    for (kind, *rest), r in runs.items():
        if kind != 'j':
            continue
        jj, v, l = rest
        try:
            docs[(jj, v, l)] = json.loads(r.out)
        except ValueError:
            which = 'with-level' if l != 'info' else ('with-verbose' if v else 'plain')
            fails.append(['json-not-one-document-%s' % which, 'jj=%d v=%d -l %s: %r' % (jj, v, l, r.out[:120])])
    if docs:
        first = next(iter(docs.values()))
        for k, d in docs.items():
            if d != first:
                fails.append(['json-value-depends-on-options', repr(k)])
                break
        if ref is not None:
            jf = collections.Counter(_canon_findings(report.JsonReport(first).findings()))
            known = lambda k: refmodel.db_lookup(db, k[0], k[1]) is not None
            a = collections.Counter({k: c for k, c in jf.items() if known(k)})
            b_ = collections.Counter({k: c for k, c in ref.items() if known(k)})
            if a != b_:
                diff = list((a - b_).items())[:3] + list((b_ - a).items())[:3]
                fails.append(['json-findings-differ-from-text', repr(diff)])
    # 6. repeated audit is byte-identical
    again = run_peer(spec, role, text_argv(TEXT_SETS[0]))
    if again.out != runs[('t', 0, 0, 0, 'info')].out:
        fails.append(['repeat-run-differs', ''])
    sevs = {k[2] for k in (ref or {})}
    nt = len(sevs) >= 2
    return mkres(case, nt=nt, classes=['role:' + role, 'sevs:' + '+'.join(sorted(sevs))], fails=fails)


def eval_subproc(case):
    """Engine B: the real process under several hash seeds must print byte-identical output, equal to engine A's."""
    lists, role = case['lists'], 'server'
    spec = {'banner': 'SSH-2.0-OpenSSH_8.4p1 Debian-5', 'comp': case.get('comp') or ['none'], 'kex': lists['kex'], 'key': lists['key'], 'enc': lists['enc'], 'mac': lists['mac'], 'hostkeys': {'ssh-ed25519': {'t': 'ed25519'}, 'ssh-rsa': {'t': 'rsa', 'bits': 2048}, 'rsa-sha2-256': {'t': 'rsa', 'bits': 2048}, 'rsa-sha2-512': {'t': 'rsa', 'bits': 2048}}, 'moduli': [2048, 3072], 'gex_style': 'roundup'}
    fails = []
    outs = {}
    argv = case['argv']
    if case.get('limited'):
        # only the first follow-up connection is served, every later one is closed at once: which probes get an answer
        # depends on the order the tool makes them in - that order may not depend on string hashing
        spec['faults'] = [['connect', i, 'close'] for i in range(2, 60)]
        spec['hostkeys']['ecdsa-sha2-nistp256'] = {'t': 'ecdsa', 'curve': 'nistp256'}
    for hs in case['hashseeds']:
        # a fresh scripted server per run: connection indices start at 0 every time
        with drive.RealServers([fakenet.Server(spec)]) as rs:
            port = rs.ports[0]
            r = drive.run_subprocess(argv + ['--skip-rate-test', '-p', str(port), '127.0.0.1'], env_extra={'PYTHONHASHSEED': str(hs)})
            outs[hs] = (r.code, r.out.replace(':%d' % port, ':PORT'))
    if len(set(outs.values())) != 1:
        fails.append(['output-depends-on-hash-seed', repr({k: v[0] for k, v in outs.items()})])
    net = fakenet.FakeNet()
    net.add('127.0.0.1', port, fakenet.Server(spec), ips=[(2, '127.0.0.1')])
    ra = drive.run_cli(argv + ['--skip-rate-test', '-p', str(port), '127.0.0.1'], net)
    code_b, out_b = next(iter(outs.values()))
    agree = (ra.code, ra.out.replace(':%d' % port, ':PORT')) == (code_b, out_b)
    if not agree and os.environ.get('VERIF_STRICT_AB'):
        import difflib
        d = list(difflib.unified_diff(out_b.split('\n'), ra.out.split('\n'), lineterm='', n=0))[:8]
        raise RuntimeError('engine A and engine B disagree (harness infidelity): codes %r/%r diff %r' % (code_b, ra.code, d))
    return mkres(case, nt=True, classes=['subproc', 'AB-agree' if agree else 'AB-disagree'], fails=fails, info={'ab_validated': 1})


def strat_peer():
    trouble = st.sampled_from([None, None, None, ['connect', 'refuse'], ['connect', 'close'], ['connect', 'timeout'], ['banner', 'close'], ['kexinit', 'stall'], ['gex_group', 'close']])
    return st.tuples(st.one_of(gens.rated_peer(), gens.rated_peer(), gens.rated_peer(), gens.all_clean_peer()), st.sampled_from(['server', 'server', 'client']), st.one_of(st.none(), st.none(), gens.unknown_name(12).filter(lambda s: not s.startswith('gss-')), gens.gss_name(), st.sampled_from(['zz\x1b[2Kname', 'del\x7fname', 'bel\x07l', 'esc\x1b]0;t\x07'])),
                     st.sampled_from([False, False, True]), trouble, st.booleans(),
                     # what the peer announces about itself (protocol 1 still enabled, other products, nothing recognisable) is one more thing the options must not interact with
                     st.sampled_from([None, None, None, 'SSH-1.99-OpenSSH_8.9', 'SSH-1.99-dropbear_2020.81', 'SSH-2.0-libssh_0.9.6', 'SSH-2.0-x', 'SSH-1.99-Cisco-1.25', 'SSH-2.0-OpenSSH_10.0', 'SSH-2.0-PuTTY_Release_0.78', 'SSH-2.0-OpenSSH_7.2 \x01odd'])).map(
        lambda t: _cross(dict({'kind': 'peer', 'lists': dict(t[0], kex=t[0]['kex'] + ([t[2]] if t[2] else []) + (['diffie-hellman-group-exchange-sha256'] if t[4] and t[5] else [])), 'role': t[1]}, **dict(([('asym', True)] if t[3] else []) + ([('probe_trouble', t[4])] if t[4] and t[1] == 'server' else []) + ([('banner', t[6])] if t[6] else [])))))


def _cross(case):
    """Now and then the same name is advertised in two categories (each category rates it on its own)."""
    L = case['lists']
    h = sum(len(x) for v in L.values() for x in v)
    if h % 4 == 0:
        for name in (['none', 'AEAD_AES_128_GCM', 'chacha20-poly1305@openssh.com'][h % 3],):
            for c in ('enc', 'mac'):
                if name not in L[c]:
                    L[c] = L[c] + [name]
    return case


def valid_case(case):
    return all(len(case['lists'][c]) >= 1 for c in CATS)


def run(ctx):
    n = 320 if ctx.quick else 5000
    ctx.hyp('strat_peer', n, label=1, shards=16)
    # peers that answer the probes and talk while doing so; peers with several compression methods; peers whose report runs to hundreds of kilobytes
    rn0 = {c: sorted(gens.rated_names(c)) for c in CATS}
    special = []
    for i in range(6 if ctx.quick else 40):
        lists = {c: [rn0[c][(i * 17 + j * 5 + ctx.seed) % len(rn0[c])] for j in range(1 + (i + j0) % 3)] for j0, c in enumerate(CATS)}
        lists['kex'] = ['curve25519-sha256'] + [k for k in lists['kex'] if k != 'curve25519-sha256'] + ['diffie-hellman-group-exchange-sha256']
        lists['key'] = list(dict.fromkeys(lists['key'] + ['rsa-sha2-512', 'ssh-ed25519']))
        special.append({'kind': 'peer', 'lists': lists, 'role': 'server', 'chatty': True, 'comp': [['zlib@openssh.com', 'zlib', 'none'], ['none', 'zlib'], ['zlib', 'zlib@openssh.com']][i % 3]})
    for i in range(1 if ctx.quick else 4):
        big = {c: rn0[c] + ['vendor-%s-%04d@example.com' % (c, j) for j in range(1300 + 100 * i)] for c in CATS}
        big['kex'] = [k for k in big['kex'] if not k.startswith('diffie-hellman-group-exchange')]
        special.append({'kind': 'peer', 'lists': big, 'role': ('server', 'client')[i % 2]})
    ctx.map(special, chunk=1)
    # engine B sample (deterministic peers drawn from the table)
    rn = {c: gens.rated_names(c) for c in CATS}
    sub = []
    k = 12 if ctx.quick else 60
    for i in range(k):
        lists = {}
        for c in CATS:
            names = sorted(rn[c])
            lists[c] = [names[(ctx.seed * 7 + i * 13 + j * 5) % len(names)] for j in range(1 + i % 3)]
        lists['kex'] = lists['kex'] + ['diffie-hellman-group-exchange-sha256']
        if i % 2 == 0:
            # several algorithms in every note that is built from a collection (Terrapin advisory, recommendations)
            lists['kex'] = lists['kex'] + ['kex-strict-s-v00@openssh.com']
            lists['enc'] = lists['enc'] + ['chacha20-poly1305@openssh.com', 'aes128-cbc', 'aes256-cbc', '3des-cbc']
            lists['mac'] = lists['mac'] + ['hmac-sha2-256-etm@openssh.com', 'hmac-sha2-512-etm@openssh.com', 'umac-128-etm@openssh.com']
        lists['key'] = lists['key'] + ['ssh-rsa', 'ssh-ed25519']
        if i % 3 == 1:
            # names the table does not know, one of them in two categories: whatever is assembled from them must come out in one order
            lists['enc'] = lists['enc'] + ['aead-zz-256@example.com', 'zz-cipher-1']
            lists['mac'] = lists['mac'] + ['aead-zz-256@example.com', 'zz-mac-1@example.org']
            lists['kex'] = lists['kex'] + ['zz-kex-a', 'zz-kex-b@example.net']
            lists['key'] = lists['key'] + ['zz-hostkey']
        if i % 3 == 2:
            # several advertised names behind one table entry (two GSS mechanisms of the same family): one order, whatever the hash seed
            lists['kex'] = lists['kex'] + ['gss-gex-sha1-toWM5Slw5Ew8Mqkay+al2g==', 'gss-group14-sha1-toWM5Slw5Ew8Mqkay+al2g==', 'gss-gex-sha1-dZuIebMjgUqaxvbF7hDbAw==', 'gss-group14-sha1-dZuIebMjgUqaxvbF7hDbAw==', 'gss-gex-sha1-eipGX3TCiQSrx573bT1o1Q==', 'gss-group14-sha1-eipGX3TCiQSrx573bT1o1Q==']
        argv = [['-n'], ['-n', '-j'], ['-n', '-v'], ['-b'], ['-jj']][i % 5]
        sub.append({'kind': 'subproc', 'lists': {c: list(dict.fromkeys(l)) for c, l in lists.items()}, 'argv': argv, 'hashseeds': [0, 1, 2, 3, 4, 12345], 'comp': [None, ['zlib@openssh.com', 'zlib', 'none'], ['zlib', 'none', 'zlib@openssh.com', 'lz4@example.com']][i % 3]})
        if i % 4 == 2:
            sub.append({'kind': 'subproc', 'limited': True, 'lists': dict(sub[-1]['lists'], key=['rsa-sha2-512', 'ssh-ed25519', 'ecdsa-sha2-nistp256', 'ssh-rsa']), 'argv': argv, 'hashseeds': [0, 1, 2, 3, 4, 5, 6, 12345]})
    pc = [{'kind': 'policy', 'legacy': lg, 'larger': la, 'drift': dr, 'rsa': rsa, 'dh': dh} for lg in (False, True) for la in (False, True) for dr in (False, True) for rsa in (3072, 4096, 2048) for dh in (3072, 2048)]
    ctx.map(pc)
    ctx.map(sub, chunk=1)
    ctx.note(option_sets_per_peer=len(TEXT_SETS) + len(JSON_SETS), traces_validated_against_impl=len(sub), subprocess_runs=len(sub) * 6)
    return ctx.finish('exploration', 'Hypothesis peers covering every severity mix (fail / warn / clean / unknown / gss names, both roles), each audited under all 24 text option sets (-b, -v, -n, -l) and 12 JSON option sets (-j/-jj, -v, -l); engine-B sample: the real process under PYTHONHASHSEED 0/1/2/3/4/12345 with probes answered (peers with several Terrapin-class algorithms, several unknown names, one unknown name in two categories); policy audits (current and older size directives, matching and drifting) under 9 option sets; non-trivial = peer with >= 2 severities, or a policy audit',
                      assumptions=['recommendation section is sorted on the coloured strings, so colour/no-colour are compared as multisets of lines', 'engine A = engine B byte for byte on the sampled cases (checked, disagreement is a harness error)'])

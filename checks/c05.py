"""C05 — a policy made from a target passes on that target and fails on any drift.

Whole CLI: `-M file` against a generated peer, `-P file` against the same peer (must pass) and
against every single-attribute perturbation of it (must fail naming the field).  Plus every built-in
policy against a peer configured exactly as the policy lists.
"""
import json
import os
import tempfile

from hypothesis import strategies as st

from vlib import fakenet, drive, report, gens, polpeer
from vlib.runner import mkres

ID = 'C05'
CATS = ('kex', 'key', 'enc', 'mac')
TITLE = {'kex': 'Key exchanges', 'key': 'Host keys', 'enc': 'Ciphers', 'mac': 'MACs'}
RSA_FAMILY = ['ssh-rsa', 'rsa-sha2-256', 'rsa-sha2-512']
RSA_CERT = 'ssh-rsa-cert-v01@openssh.com'
ED_CERT = 'ssh-ed25519-cert-v01@openssh.com'
RSA_CERTS = [RSA_CERT, 'rsa-sha2-256-cert-v01@openssh.com', 'rsa-sha2-512-cert-v01@openssh.com']      # the last two are answered with a blob of the first kind, as real servers do
ECDSA = ['ecdsa-sha2-nistp256', 'ecdsa-sha2-nistp384', 'ecdsa-sha2-nistp521']
GEX = 'diffie-hellman-group-exchange-sha256'
GEX1 = 'diffie-hellman-group-exchange-sha1'


def peer_spec(case, lists=None, sizes=None):
    lists = lists or case['lists']
    sizes = sizes or case['sizes']
    hk = {}
    if any(k in RSA_FAMILY for k in lists['key']):
        for k in RSA_FAMILY:
            hk[k] = {'t': 'rsa', 'bits': sizes['rsa']}
    hk['ssh-ed25519'] = {'t': 'ed25519'}
    ca = {'t': 'rsa', 'bits': sizes['ca']} if sizes['ca_type'] == 'rsa' else ({'t': 'ed25519'} if sizes['ca_type'] == 'ed25519' else {'t': 'ecdsa', 'curve': 'nistp256'})
    for c in RSA_CERTS:
        hk[c] = {'t': 'cert', 'kind': RSA_CERT, 'bits': sizes['cert_host'], 'ca': ca}
    for c in ECDSA:
        hk[c] = {'t': 'ecdsa', 'curve': c[-8:]}
    hk['ssh-ed448'] = {'t': 'ed448'}
    hk[ED_CERT] = {'t': 'cert', 'kind': ED_CERT, 'ca': ca}
    spec = {'banner': case.get('banner', 'SSH-2.0-OpenSSH_9.6'), 'kex': lists['kex'], 'key': lists['key'], 'enc': lists['enc'], 'mac': lists['mac'], 'enc_c': case.get('enc_c'), 'mac_c': case.get('mac_c'), 'hostkeys': {k: v for k, v in hk.items() if k in lists['key'] or k in RSA_FAMILY}}
    if any(k.startswith('diffie-hellman-group-exchange') for k in lists['kex']):
        spec['moduli'] = [sizes['gex']]
        spec['gex_style'] = sizes.get('gex_style', 'roundup')
        if sizes.get('chatty'):
            spec['chatter'] = {'gex_group': sizes['chatty'], 'kexdh_reply': sizes['chatty'], 'gex_reply': 1}      # debug messages in front of the replies
        if sizes.get('gex_sha1') is not None:
            spec['moduli_by_alg'] = {GEX: [sizes['gex']], GEX1: [sizes['gex_sha1']]}      # separate groups per algorithm
    return spec


def run_with(case, spec, argv):
    peer = fakenet.Server(spec)
    net = fakenet.FakeNet()
    if case['role'] == 'server':
        net.add('h', 22, peer)
        return drive.run_cli(['-n'] + argv + ['--skip-rate-test', 'h'], net)
    net.pending_clients.append(peer)
    return drive.run_cli(['-n'] + argv + ['-c'], net)


def perturbations(case):
    """Yield (label, expected error field prefix, lists, sizes) for every single-attribute drift."""
    L, S = case['lists'], case['sizes']
    role_server = case['role'] == 'server'
    for c in CATS:
        l = L[c]
        extra = {'kex': 'diffie-hellman-group14-sha256', 'key': 'ecdsa-sha2-nistp521', 'enc': 'aes256-gcm@openssh.com', 'mac': 'umac-64@openssh.com'}[c]
        if extra not in l:
            yield ('add-%s' % c, TITLE[c], dict(L, **{c: l + [extra]}), S)
            yield ('add-front-%s' % c, TITLE[c], dict(L, **{c: [extra] + l}), S)
        if len(l) > 1:
            yield ('remove-%s' % c, TITLE[c], dict(L, **{c: l[:-1]}), S)
            if l[0] != l[1]:
                yield ('swap-%s' % c, TITLE[c], dict(L, **{c: [l[1], l[0]] + l[2:]}), S)
    if not role_server:
        return          # sizes are only measured when auditing a server
    probed_rsa = [k for k in L['key'] if k in RSA_FAMILY]
    # the tool probes with the first key exchange it supports; sizes exist only if there is one
    if not case.get('probeable'):
        return
    if probed_rsa:
        for d in (+1024, -1024, -1, -6, +8):
            if S['rsa'] + d >= 1024:
                yield ('rsa-size%+d' % d, 'Host key (%s) sizes' % sorted(probed_rsa)[0], L, dict(S, rsa=S['rsa'] + d))
    for cert in RSA_CERTS + [ED_CERT]:
        if cert in L['key']:
            if S['ca_type'] == 'rsa':
                for d in (+1024, -1024, -1, -8):
                    if S['ca'] + d >= 1024:
                        yield ('ca-size%+d-%s' % (d, cert[:8]), 'CA signature size (ssh-rsa)', L, dict(S, ca=S['ca'] + d))
                yield ('ca-type-%s' % cert[:8], 'CA signature type', L, dict(S, ca_type='ed25519'))
            else:
                yield ('ca-type-%s' % cert[:8], 'CA signature type', L, dict(S, ca_type='rsa'))
            if cert in RSA_CERTS:
                for d in (+1024, -6, -1):
                    yield ('cert-host-size%+d-%s' % (d, cert[:12]), 'Host key (%s) sizes' % cert, L, dict(S, cert_host=S['cert_host'] + d))
    if GEX in L['kex'] and S.get('gex_style') == 'strict':
        # a server that insists on its own groups can only be measured at the sizes the tool asks for: the drift is to a neighbouring one of those
        nine = [512, 768, 1024, 1536, 2048, 3072, 4096, 6144, 8192]
        i = nine.index(S['gex'])
        for j in (i - 1, i + 1):
            if 0 <= j < len(nine) and nine[j] <= 4096:
                yield ('gex-size%+d' % (nine[j] - S['gex']), 'Group exchange (%s) modulus sizes' % GEX, L, dict(S, gex=nine[j]))
    elif GEX in L['kex']:
        # (a server that hands out its nearest group whatever was asked for shows its size to the bit: moduli files list 2047-bit groups)
        for d in (+1024, -1024) + ((-1, -7, +1) if S.get('gex_style') == 'roundup' else ()):
            if S['gex'] + d >= (2048 if S.get('gex_style') == 'openssh' else 1024):      # an OpenSSH-style server never hands out less than 2048
                yield ('gex-size%+d' % d, 'Group exchange (%s) modulus sizes' % GEX, L, dict(S, gex=S['gex'] + d))


def eval_case(case):
    fails = []
    if case['kind'] == 'builtin':
        from ssh_audit.builtin_policies import BUILTIN_POLICIES
        pol = BUILTIN_POLICIES[case['policy']]
        spec = polpeer.spec_from_policy(pol, optional=case.get('optional', []))
        c2 = {'role': 'server' if pol['server_policy'] else 'client'}
        for js in (True, False):
            r = run_with(c2, spec, ['-P', case['policy']] + (['-j'] if js else []))
            if r.exc or r.hang:
                fails.append([drive.crash_sig(r) if r.exc else 'hang', r.brief()])
                continue
            if r.code != 0:
                errs = json.loads(r.out)['errors'] if js else report.policy_result(r.out)['error_fields']
                fails.append(['builtin-policy-fails-on-peer-configured-as-listed', '%s (+%r): exit %d, errors %r' % (case['policy'], case.get('optional'), r.code, errs)])
        return mkres(case, nt=True, classes=['builtin', c2['role']] + (['optional-hostkey'] if case.get('optional') else []), fails=fails)
    d = tempfile.mkdtemp(prefix='verif-c05-')
    path = os.path.join(d, 'policy.txt')
    try:
        spec0 = peer_spec(case)
        r = run_with(case, spec0, ['-M', path])
        if r.exc or r.hang or r.code != 0 or not os.path.exists(path):
            sig = drive.crash_sig(r) + '-make-policy' if r.exc else 'make-policy-failed'
            fails.append([sig, r.brief()])
            return mkres(case, nt=True, classes=['make-failed'], fails=fails)
        text = open(path, encoding='utf-8').read()
        # same peer: must load and pass with no errors, text and JSON
        for js in (True, False):
            r = run_with(case, spec0, ['-P', path] + (['-j'] if js else []))
            if r.exc or r.hang:
                fails.append([drive.crash_sig(r) + '-policy-run' if r.exc else 'hang', r.brief()])
                continue
            if r.code == 255 or 'Error while loading policy file' in r.out:
                sig = 'made-policy-does-not-load'
                fails.append([sig, '%r; policy text:\n%s' % (r.out[-300:], text[-600:])])
                continue
            if js:
                doc = json.loads(r.out)
                passed, errs = doc['passed'], [e['mismatched_field'] for e in doc['errors']]
            else:
                pr = report.policy_result(r.out)
                passed, errs = pr['passed'], pr['error_fields']
            if r.code != 0 or not passed or errs:
                fails.append(['made-policy-fails-on-its-own-target', '%s: exit %d passed %r errors %r (role %s)' % ('json' if js else 'text', r.code, passed, errs, case['role'])])
        n_pert = 0
        for label, field, lists, sizes in perturbations(case):
            n_pert += 1
            r = run_with(case, peer_spec(case, lists, sizes), ['-P', path, '-j'])
            if r.exc or r.hang:
                fails.append([drive.crash_sig(r) + '-policy-run' if r.exc else 'hang', r.brief()])
                continue
            try:
                doc = json.loads(r.out)
            except ValueError:
                fails.append(['policy-json-unparseable', r.out[-200:]])
                continue
            errs = [e['mismatched_field'] for e in doc['errors']]
            if r.code != 3 or doc['passed']:
                fails.append(['drift-not-detected:%s' % label.split('+')[0].split('-1')[0], '%s: exit %d passed %r errors %r; peer lists %r sizes %r' % (label, r.code, doc['passed'], errs, lists, sizes)])
            elif not any(e == field or (field.startswith('Host key (') and e.startswith('Host key (')) for e in errs):
                fails.append(['drift-error-names-wrong-field', '%s: errors %r, expected %r' % (label, errs, field)])
            else:
                for e in doc['errors']:
                    if e['mismatched_field'] in TITLE.values():
                        c = [k for k, v in TITLE.items() if v == e['mismatched_field']][0]
                        if e['actual'] != (lists[c] or ['']) or e['expected_required'] != (case['lists'][c] or ['']):      # an empty name-list is shown as one empty name
                            fails.append(['drift-error-content', '%s: %r' % (label, e)])
        # the same policy against several targets in one invocation: the target itself twice, then a drifted one
        # (a measured attribute if there is one); every target must get its own verdict
        multi = None
        perts = list(perturbations(case)) if case['role'] == 'server' else []
        if perts:
            sized = [p for p in perts if p[3] is not case['sizes']]
            label, field, lists, sizes = (sized or perts)[(len(case['lists']['kex']) + len(case['lists']['enc'])) % len(sized or perts)]
            multi = label
            net = fakenet.FakeNet()
            net.add('s0', 22, fakenet.Server(spec0))
            net.add('s1', 22, fakenet.Server(spec0))
            net.add('s2', 22, fakenet.Server(peer_spec(case, lists, sizes)))
            tf = os.path.join(d, 'targets.txt')
            with open(tf, 'w') as f:
                f.write('s0\ns1\ns2\n')
            r = drive.run_cli(['-n', '-j', '--skip-rate-test', '--threads', '1', '-P', path, '-T', tf], net)
            os.unlink(tf)
            if r.exc or r.hang:
                fails.append([drive.crash_sig(r) + '-policy-run' if r.exc else 'hang', r.brief()])
            else:
                try:
                    docs = {x['host']: x for x in json.loads(r.out)}
                    got = [(docs[h]['passed'], [e['mismatched_field'] for e in docs[h]['errors']]) for h in ('s0', 's1', 's2')]
                except (ValueError, KeyError, TypeError):
                    got = None
                if got is None:
                    fails.append(['policy-json-unparseable', r.out[-200:]])
                elif not (got[0] == (True, []) and got[1] == (True, [])):
                    fails.append(['made-policy-fails-on-its-own-target-in-multi-target-run', 'verdicts %r (third target drifted: %s)' % (got, label)])
                elif got[2][0] or r.code != 3:
                    fails.append(['drift-not-detected-in-multi-target-run:%s' % label.split('+')[0].split('-1')[0], '%s: exit %d, verdicts %r' % (label, r.code, got)])
                elif not any(e == field or (field.startswith('Host key (') and e.startswith('Host key (')) for e in got[2][1]):
                    fails.append(['drift-error-names-wrong-field', 'multi-target run, %s: errors %r, expected %r' % (label, got[2][1], field)])
    finally:
        try:
            os.unlink(path)
        except OSError:
            pass
        os.rmdir(d)
    flat = [n for c in CATS for n in case['lists'][c]]
    special = any(ch in n for n in flat for ch in '=+/')
    cl = ['roundtrip', 'role:' + case['role'], 'perturbations:%d' % min(n_pert, 20)] + (['special-chars'] if special else []) + (['probeable'] if case.get('probeable') else [])
    if multi:
        cl.append('multi-target-drift:' + multi.split('+')[0].split('-1')[0].split('-')[0])
    cl += ['key:' + k for k in case['lists']['key'] if k in RSA_CERTS[1:] + ECDSA + ['ssh-ed448']]
    return mkres(case, nt=True, classes=cl, fails=fails)


PROBE_KEX = ['curve25519-sha256', 'curve25519-sha256@libssh.org', 'diffie-hellman-group14-sha256', 'ecdh-sha2-nistp256', GEX, 'diffie-hellman-group16-sha512']


def strat_peer():
    def nm(cat):
        # RFC 4251 names are 1..64 characters: both ends of the range are drawn on purpose
        edge = st.sampled_from([1, 2, 63, 64]).flatmap(lambda n: st.text(alphabet='abcdefghijklmnopqrstuvwxyz0123456789-_.@+/=', min_size=n, max_size=n)).filter(lambda s: not s.startswith('gss-'))
        return st.one_of(st.sampled_from(gens.db_names(cat)), st.sampled_from(gens.db_names(cat)), st.sampled_from(gens.db_names(cat)), st.text(alphabet='abcdefghijklmnopqrstuvwxyz0123456789-_.@+/=', min_size=1, max_size=16).filter(lambda s: s.strip() == s and not s.startswith('gss-')), gens.gss_name() if cat == 'kex' else st.sampled_from(gens.db_names(cat)), edge)

    def build(t):
        kex, key, enc, mac, probe_kex, keyextra, role, rsa, ca, ca_type, cert_host, gex, with_gex = t
        kex = list(dict.fromkeys(kex))
        key = list(dict.fromkeys(key + keyextra))
        probeable = probe_kex is not None
        if probeable:
            kex = [probe_kex] + [k for k in kex if k != probe_kex]
        else:
            kex = [k for k in kex if k not in PROBE_KEX and not k.startswith('diffie-hellman-group') and not k.startswith('ecdh-sha2-nistp') and not k.startswith('curve25519')] or ['sntrup761x25519-sha512@openssh.com']
        if with_gex and GEX not in kex:
            kex.append(GEX)
        both = with_gex and (rsa + cert_host) % 2048 == 0
        if both and GEX1 not in kex:
            kex.append(GEX1)
        case = {'kind': 'roundtrip', 'role': role, 'probeable': probeable or GEX in kex, 'lists': {'kex': kex, 'key': key, 'enc': list(dict.fromkeys(enc)), 'mac': list(dict.fromkeys(mac))},
                'sizes': {'rsa': rsa, 'ca': ca, 'ca_type': ca_type, 'cert_host': cert_host, 'gex': gex, 'gex_style': 'openssh' if (ca + gex) % 2048 == 0 else 'roundup', 'gex_sha1': ([3072, 4096, 2048][(rsa // 1024) % 3] if both else None)}}
        case['banner'] = ['SSH-2.0-OpenSSH_9.6', 'SSH-2.0-OpenSSH_for_Windows_8.1', 'SSH-2.0-OpenSSH_8.9p1 Ubuntu-3ubuntu0.1', 'SSH-2.0-dropbear_2022.83', 'SSH-1.99-OpenSSH_7.4', 'SSH-2.0-OpenSSH'][(rsa // 1024 + ca // 1024 * 3 + cert_host // 1024 + len(kex)) % 6]
        if 'OpenSSH' not in case['banner']:
            case['sizes']['gex_style'] = 'roundup'
        if (rsa + gex) % 4096 == 0:
            case['sizes']['chatty'] = 2 + (ca // 1024) % 2
        if probe_kex == GEX and ca % 3072 == 0:
            # a legacy server: group exchange is what the host-key probes run over, and its groups are small ones it insists on
            case['banner'] = 'SSH-2.0-dropbear_2012.55'
            case['sizes']['gex'] = [1024, 1536][(rsa // 1024) % 2]
            case['sizes']['gex_style'] = 'strict'
            case['sizes']['gex_sha1'] = None
            case['lists']['kex'] = [k for k in case['lists']['kex'] if k != GEX1]       # (the 2048-bit fallback is OpenSSH's; only there does the tool look behind it)
        if (rsa + ca + gex) % 3072 == 0:
            # the other direction advertises something else (peers may list different algorithms per direction)
            case['enc_c'] = case['lists']['enc'][::-1] + ['aes128-ctr']
            case['mac_c'] = ['hmac-sha2-512'] + case['lists']['mac']
        return case
    return st.tuples(st.lists(nm('kex'), min_size=1, max_size=5), st.lists(nm('key'), min_size=0, max_size=3), st.lists(nm('enc'), min_size=1, max_size=5), st.one_of(st.lists(nm('mac'), min_size=1, max_size=5), st.lists(nm('mac'), min_size=1, max_size=5), st.lists(nm('mac'), min_size=1, max_size=5), st.just([])),
                     st.one_of(st.none(), st.sampled_from(PROBE_KEX), st.sampled_from(PROBE_KEX)), st.lists(st.sampled_from(['ssh-rsa', 'rsa-sha2-512', 'rsa-sha2-256', 'ssh-ed25519', RSA_CERT, ED_CERT, 'ssh-rsa', RSA_CERT, ED_CERT] + RSA_CERTS[1:] + ECDSA[:1] + ['ssh-ed448']), min_size=1, max_size=4, unique=True),
                     st.sampled_from(['server', 'server', 'server', 'client']), st.sampled_from([2048, 3072, 4096]), st.sampled_from([2048, 3072, 4096]), st.sampled_from(['rsa', 'rsa', 'ed25519']), st.sampled_from([2048, 3072, 4096]),
                     st.sampled_from([2048, 3072, 4096]), st.booleans()).map(build)


def valid_case(case):
    if case.get('kind') != 'roundtrip':
        return True
    return all(len(case['lists'][c]) >= 1 for c in CATS if c != 'mac')      # an empty MAC list is what an AEAD-only peer sends


def run(ctx):
    from ssh_audit.builtin_policies import BUILTIN_POLICIES
    n = 3000 if ctx.quick else 40000
    ctx.hyp('strat_peer', n, label=1, shards=16)
    bc = []
    for p, pol in BUILTIN_POLICIES.items():
        bc.append({'kind': 'builtin', 'policy': p, 'optional': []})
        for o in pol.get('optional_host_keys') or []:
            bc.append({'kind': 'builtin', 'policy': p, 'optional': [o]})
    ctx.map(bc)
    ctx.note(builtin_policy_cases=len(bc), builtin_policies=len(BUILTIN_POLICIES))
    return ctx.finish('exploration', 'Hypothesis peers (lists over database names, gss-* names, RFC names with = + / @; RSA / certificate / CA / GEX sizes; server and client role): -M, then -P on the same peer (text and JSON) and on every applicable single-attribute perturbation (add / add-front / remove / swap per list, host-key size, CA size, CA type, certificate host size, GEX modulus); all built-in policies against a peer configured as listed, with each optional host key',
                      assumptions=['names are non-empty RFC 4251 names without leading/trailing blanks', 'size perturbations: +-1024 bits on the 2048/3072/4096 grid and -1 / -6 / +-8 bits (group-exchange modulus of a round-up server: -1 / -7 / +1)'])

"""C14 — software versions are ordered numerically, component by component.

Function level: Software.compare_version / between_versions and Timeframe on generated version
strings; CLI level: a banner at a generated version against a fixed peer, additions recommended iff
the table's first-appeared version is numerically <= the banner's.  Oracle: tuple-of-ints order.
"""
import itertools
import json

from hypothesis import strategies as st

from vlib import fakenet, drive, refmodel, report
from vlib.runner import mkres

ID = 'C14'
COMPONENTS = list(range(0, 13)) + [99, 100, 101] + list(range(2011, 2025))
PATCHES = {'OpenSSH': ['', 'p1', 'p2'], 'Dropbear SSH': ['', 'test1', 'test2'], 'libssh': ['']}
BANNER_FMT = {'OpenSSH': 'SSH-2.0-OpenSSH_%s%s', 'Dropbear SSH': 'SSH-2.0-dropbear_%s%s', 'libssh': 'SSH-2.0-libssh_%s%s'}


def sgn(x):
    return (x > 0) - (x < 0)


def _sw(product, ver, patch):
    from ssh_audit.software import Software
    return Software(None, product, ver, patch or None, None)


def _cmp(product, a, b):
    return sgn(_sw(product, a[0], a[1]).compare_version(b[0] + b[1]))


def _sound(case):
    """Callers only ever pass versions that the banner regex ([\\d.]+\\d+) can yield together with a
    patch suffix: at least two characters.  A one-character version never carries a suffix."""
    for key in ('a', 'b', 'c'):
        if key in case and len(case[key][0]) < 2 and case[key][1]:
            case[key] = [case[key][0], '']
    return case


def valid_case(case):
    if case.get('kind') == 'cmp_threads':
        return len(case['versions']) >= 2
    if case.get('kind') == 'timeframe2':
        return len(case['updates']) >= 1
    return all(len(case[k][0]) >= 2 or not case[k][1] for k in ('a', 'b', 'c') if k in case)


def _availability_failures(product, ver, patch, adds):
    """Oracle shared by the CLI cases: an algorithm is recommended for addition iff the table says it appeared in a
    version numerically <= the server's (fixed peer: curve25519-sha256@libssh.org / ssh-ed25519 / aes128-ctr / hmac-sha2-256)."""
    from ssh_audit.ssh2_kexdb import SSH2_KexDB
    db = SSH2_KexDB.MASTER_DB
    multi = any(x >= 10 for x in refmodel.vtuple(ver))
    adv = {'kex': ['curve25519-sha256@libssh.org'], 'key': ['ssh-ed25519'], 'enc': ['aes128-ctr'], 'mac': ['hmac-sha2-256']}
    fails = []
    for cat in ('kex', 'key', 'enc', 'mac'):
        for name, entry in db[cat].items():
            if name in adv[cat]:
                continue
            nf, nw = refmodel.static_faults(entry)
            if nf or nw:
                continue
            if cat == 'key' and ('-cert-' in name or name.startswith('sk-')):
                continue
            if cat == 'kex' and (name.startswith('ext-info-') or name.startswith('kex-strict-')):
                continue
            if refmodel.is_chacha(name) or refmodel.is_cbc(name) or refmodel.is_etm(name):
                continue   # Terrapin suppression is C04's
            fv = refmodel.first_versions(entry)
            if not fv or not any(p == product and not c for p, v, c in fv):
                continue
            if patch and any(p == product and refmodel.vtuple(v) == refmodel.vtuple(ver) for p, v, c in fv):
                continue   # numerically equal: the patch suffix (pre-release / portable) decides, either answer is allowed
            avail = refmodel.available_in(entry, product, ver)
            got = name in adds.get(cat, set())
            if got != avail:
                fails.append(['availability-by-version' + ('-multidigit' if multi else '-singledigit'), '%s %s%s: %s %s (first appeared %r) %s recommended for addition' % (product, ver, patch, cat, name, entry[0][0], 'is' if got else 'is not')])
    return fails


def eval_case(case):
    case = _sound(dict(case))
    k = case['kind']
    fails = []
    product = case.get('product')
    if k == 'pair':
        a, b = case['a'], case['b']
        ab, ba = _cmp(product, a, b), _cmp(product, b, a)
        multi = any(c >= 10 for v in (a[0], b[0]) for c in refmodel.vtuple(v))
        nt = multi
        classes = ['pair', product] + (['multi-digit'] if multi else [])
        ta, tb = refmodel.vtuple(a[0]), refmodel.vtuple(b[0])
        if ab != -ba:
            fails.append(['not-antisymmetric' + ('-multidigit' if multi else ''), '%s: cmp(%s%s, %s%s)=%d but reverse=%d' % (product, a[0], a[1], b[0], b[1], ab, ba)])
        if ta != tb and not refmodel.prefix_related(a[0], b[0]):
            exp = sgn((ta > tb) - (ta < tb))
            if ab != exp:
                fails.append(['numeric-order' + ('-multidigit' if multi else '-singledigit'), '%s: %s%s vs %s%s judged %d, numeric order says %d' % (product, a[0], a[1], b[0], b[1], ab, exp)])
        # the Software-object form must agree with the string form
        ab2 = sgn(_sw(product, a[0], a[1]).compare_version(_sw(product, b[0], b[1])))
        if ab2 != ab:
            fails.append(['object-vs-string-form', '%s: %r vs %r: %d / %d' % (product, a, b, ab2, ab)])
        # ... and so must the release as the tool identifies it from an identification string (that is where a server's version comes from)
        if len(a[0]) >= 2 and len(a[0]) <= 64 and '.' in a[0]:
            from ssh_audit.banner import Banner
            from ssh_audit.software import Software
            sb = Software.parse(Banner.parse(BANNER_FMT[product] % (a[0], a[1])))
            if sb is None or sb.version != a[0]:
                fails.append(['version-identified-from-banner-differs', '%s: banner %r identified as version %r patch %r' % (product, BANNER_FMT[product] % (a[0], a[1]), getattr(sb, 'version', None), getattr(sb, 'patch', None))])
            elif sgn(sb.compare_version(b[0] + b[1])) != ab:
                fails.append(['judgement-from-banner-differs', '%s: %r vs %r: %d from the banner, %d from the version' % (product, a, b, sgn(sb.compare_version(b[0] + b[1])), ab)])
        # between_versions is the conjunction of the two comparisons
        lo, hi = (a, b) if (ta, a[1]) <= (tb, b[1]) else (b, a)
        s = _sw(product, a[0], a[1])
        bw = s.between_versions(b[0] + b[1], '')
        if bw != (_cmp(product, a, b) >= 0):
            fails.append(['between-versions-lower-bound', '%r %r' % (a, b)])
        bw = s.between_versions('', b[0] + b[1])
        if bw != (_cmp(product, a, b) <= 0):
            fails.append(['between-versions-upper-bound', '%r %r' % (a, b)])
        return mkres(case, nt=nt, classes=classes, fails=fails)
    if k == 'timeframe2':
        # compatibility ranges: every algorithm contributes "since" and "disabled in" versions for several products in one
        # string; per product the range is [numerically largest since, numerically smallest till]
        from ssh_audit.timeframe import Timeframe
        PFX = {'OpenSSH': '', 'Dropbear SSH': 'd', 'libssh': 'l1'}
        tf = Timeframe()
        for since, till in case['updates']:
            tf.update([','.join(PFX[p] + v for p, v in since), ','.join(PFX[p] + v for p, v in till)], True)
        for p in PFX:
            ss = [v for since, _ in case['updates'] for q, v in since if q == p]
            ts = [v for _, till in case['updates'] for q, v in till if q == p]
            want_from = max(ss, key=refmodel.vtuple) if ss else None
            want_till = min(ts, key=refmodel.vtuple) if ts else None
            got_from, got_till = tf.get_from(p, True), tf.get_till(p, True)
            if (got_from is None) != (want_from is None) or (got_from is not None and refmodel.vtuple(got_from) != refmodel.vtuple(want_from)):
                fails.append(['compat-range-from-multi-product', '%s: updates %r -> since %r, numeric maximum is %r' % (p, case['updates'], got_from, want_from)])
            if (got_till is None) != (want_till is None) or (got_till is not None and refmodel.vtuple(got_till) != refmodel.vtuple(want_till)):
                fails.append(['compat-range-till-multi-product', '%s: updates %r -> till %r, numeric minimum is %r' % (p, case['updates'], got_till, want_till)])
        return mkres(case, nt=True, classes=['timeframe2'], fails=fails[:3])
    if k == 'cmp_threads':
        # the same judgements made by several threads at once (a multi-target run compares versions from every worker):
        # each thread owns one server version and compares it with all others; every answer must be the one a single thread gets
        import sys
        import threading
        vers = [tuple(v) for v in case['versions']]
        ref = {(i, j): _cmp(product, list(a), list(b)) for i, a in enumerate(vers) for j, b in enumerate(vers)}
        wrong = []
        old = sys.getswitchinterval()
        try:
            sys.setswitchinterval(1e-6)
            bar = threading.Barrier(case['threads'])

            def w(t):
                bar.wait()
                for rep in range(case['reps']):
                    i = (t + rep // 7) % len(vers) if case.get('rotate') else t % len(vers)
                    for j in range(len(vers)):
                        got = _cmp(product, list(vers[i]), list(vers[j]))
                        if got != ref[(i, j)] and len(wrong) < 5:
                            wrong.append((vers[i], vers[j], got, ref[(i, j)]))
            ts = [threading.Thread(target=w, args=(t,)) for t in range(case['threads'])]
            [t.start() for t in ts]
            [t.join() for t in ts]
        finally:
            sys.setswitchinterval(old)
        if wrong:
            a, b, got, want = wrong[0]
            fails.append(['judgement-differs-under-concurrent-comparisons', '%s: %s%s vs %s%s judged %d by a thread running beside %d others, %d when asked alone (%d such answers)' % (product, a[0], a[1], b[0], b[1], got, case['threads'] - 1, want, len(wrong))])
        return mkres(case, nt=True, classes=['cmp_threads', product, 'threads:%d' % case['threads']], fails=fails)
    if k == 'triple':
        a, b, c = case['a'], case['b'], case['c']
        ab, bc, ac = _cmp(product, a, b), _cmp(product, b, c), _cmp(product, a, c)
        multi = any(x >= 10 for v in (a[0], b[0], c[0]) for x in refmodel.vtuple(v))
        if ab <= 0 and bc <= 0:
            if ac > 0 or ((ab < 0 or bc < 0) and ac == 0):
                fails.append(['not-transitive' + ('-multidigit' if multi else ''), '%s: %r<=%r (%d), %r<=%r (%d) but cmp(a,c)=%d' % (product, a, b, ab, b, c, bc, ac)])
        return mkres(case, nt=multi, classes=['triple', product], fails=fails)
    if k == 'timeframe':
        from ssh_audit.timeframe import Timeframe
        tf = Timeframe()
        prefix = {'OpenSSH': '', 'Dropbear SSH': 'd', 'libssh': 'l1'}[product]
        for v in case['since']:
            tf.update([prefix + v], True)
        got = tf.get_from(product, True)
        exp = max(case['since'], key=refmodel.vtuple)
        multi = any(x >= 10 for v in case['since'] for x in refmodel.vtuple(v))
        def _vt(x):
            try:
                return refmodel.vtuple(x)
            except ValueError:
                return ('not-a-version', x)
        if got is None or _vt(got) != refmodel.vtuple(exp):
            fails.append(['compat-range-from' + ('-multidigit' if multi else ''), '%s: first-appeared versions %r -> "since %s", numeric maximum is %s' % (product, case['since'], got, exp)])
        tf2 = Timeframe()
        for v in case['since']:
            tf2.update([prefix + '0.1', prefix + v], True)
        got2 = tf2.get_till(product, True)
        exp2 = min(case['since'], key=refmodel.vtuple)
        if got2 is None or _vt(got2) != refmodel.vtuple(exp2):
            fails.append(['compat-range-till' + ('-multidigit' if multi else ''), '%s: removed-in versions %r -> "till %s", numeric minimum is %s' % (product, case['since'], got2, exp2)])
        # the range as the report words it: "from-till" when from is the older release, "from+ (some functionality from till)" otherwise
        if product in ('OpenSSH', 'Dropbear SSH') and len(case['since']) >= 2 and refmodel.vtuple(case['since'][0]) != refmodel.vtuple(case['since'][1]):
            from ssh_audit import ssh_audit as sa
            from ssh_audit.outputbuffer import OutputBuffer
            a, b = case['since'][0], case['since'][1]
            tf3 = Timeframe()
            tf3.update([prefix + a, prefix + b], True)

            class _Algs:
                def get_ssh_timeframe(self, for_server=True):
                    return tf3
            ob = OutputBuffer()
            ob.use_colors = False
            sa.output_compatibility(ob, _Algs(), False)
            text = report.strip_ansi(ob.get_buffer()).strip()
            want = '(gen) compatibility: %s %s' % (product, ('%s+ (some functionality from %s)' % (a, b)) if refmodel.vtuple(a) > refmodel.vtuple(b) else '%s-%s' % (a, b))
            if text != want:
                fails.append(['compat-range-wording' + ('-multidigit' if multi else ''), '%s: appeared in %s, removed in %s: report says %r, numeric order says %r' % (product, a, b, text, want)])
        return mkres(case, nt=multi, classes=['timeframe', product], fails=fails)
    if k == 'cli-seq':
        # several servers of one product audited in one invocation: each one's additions follow its own version
        import os
        net = fakenet.FakeNet()
        hosts = []
        for i, (ver, patch) in enumerate(case['servers']):
            h = 's%d' % i
            hosts.append(h)
            net.add(h, 22, fakenet.Server({'banner': BANNER_FMT[product] % (ver, patch), 'kex': ['curve25519-sha256@libssh.org'], 'key': ['ssh-ed25519'], 'enc': ['aes128-ctr'], 'mac': ['hmac-sha2-256']}))
        tf = drive.tmpfile('\n'.join(hosts) + '\n')
        try:
            r = drive.run_cli(['-n', '-j', '--skip-rate-test', '--threads', '1', '-T', tf], net)
        finally:
            os.unlink(tf)
        multi = True
        if r.exc or r.code not in (0, 2, 3):
            return mkres(case, nt=True, classes=['cli-seq'], fails=[['cli-run-failed', r.brief()]])
        docs = {d['target'].split(':')[0]: d for d in json.loads(r.out)}
        for i, (ver, patch) in enumerate(case['servers']):
            d = docs['s%d' % i]
            adds = {}
            for lvl, acts in d['recommendations'].items():
                for cat, lst in acts.get('add', {}).items():
                    adds.setdefault(cat, set()).update(x['name'] for x in lst)
            for f in _availability_failures(product, ver, patch, adds):
                fails.append(['availability-depends-on-servers-audited-before' if f[0].startswith('availability') else f[0], '%r after %r: %s' % (case['servers'][i], case['servers'][:i], f[1])])
        return mkres(case, nt=True, classes=['cli-seq', product], fails=fails[:3])
    if k == 'cli':
        from ssh_audit.ssh2_kexdb import SSH2_KexDB
        db = SSH2_KexDB.MASTER_DB
        ver, patch = case['ver'], case['patch']
        spec = {'banner': BANNER_FMT[product] % (ver, patch), 'kex': ['curve25519-sha256@libssh.org'], 'key': ['ssh-ed25519'], 'enc': ['aes128-ctr'], 'mac': ['hmac-sha2-256']}
        net = fakenet.FakeNet()
        net.add('h', 22, fakenet.Server(spec))
        r = drive.run_cli(['-n', '-j', '--skip-rate-test', 'h'], net)
        multi = any(x >= 10 for x in refmodel.vtuple(ver))
        if r.exc or r.code not in (0, 2, 3):
            return mkres(case, nt=multi, classes=['cli'], fails=[['cli-run-failed', r.brief()]])
        doc = json.loads(r.out)
        adds = {}
        for lvl, acts in doc['recommendations'].items():
            for cat, lst in acts.get('add', {}).items():
                adds.setdefault(cat, set()).update(x['name'] for x in lst)
        fails += _availability_failures(product, ver, patch, adds)
        info = sorted((c, n) for c, ns in adds.items() for n in ns) if case.get('_want_adds') else None
        return mkres(case, nt=multi, classes=['cli', product] + (['multi-digit'] if multi else []), fails=fails[:3], info=info)
    raise ValueError(k)


def ver_st():
    return st.lists(st.sampled_from(COMPONENTS), min_size=1, max_size=4).map(lambda l: '.'.join(map(str, l)))


def _wide_component():
    # components as they may be written: plain, with leading zeros, and far longer than any machine word (or than the
    # 4300 digits the interpreter is willing to convert in one go)
    long_ = st.tuples(st.sampled_from([19, 20, 39, 4299, 4300, 4301, 6000]), st.sampled_from(['9', '1', '10', '123456789', '0']), st.sampled_from(['', '0', '1', '9'])).map(lambda t: ((t[1] * t[0])[:t[0] - len(t[2])] + t[2]).lstrip('0') or '0')
    padded = st.tuples(st.sampled_from(['0', '00', '000']), st.sampled_from(COMPONENTS)).map(lambda t: t[0] + str(t[1]))
    return st.one_of(st.sampled_from(COMPONENTS).map(str), st.sampled_from(COMPONENTS).map(str), padded, long_)


def strat_pair_wide():
    def mk(t):
        p, base, i, x, y, pa, pb = t
        i = i % len(base)
        a, b = list(base), list(base)
        a[i], b[i] = x, y
        return {'kind': 'pair', 'product': p, 'a': ['.'.join(a), PATCHES[p][pa % len(PATCHES[p])]], 'b': ['.'.join(b), PATCHES[p][pb % len(PATCHES[p])]]}
    return st.tuples(st.sampled_from(sorted(PATCHES)), st.lists(_wide_component(), min_size=1, max_size=4), st.integers(0, 3), _wide_component(), _wide_component(), st.integers(0, 2), st.integers(0, 2)).map(mk)


def strat_pair():
    return st.sampled_from(sorted(PATCHES)).flatmap(lambda p: st.fixed_dictionaries({'kind': st.just('pair'), 'product': st.just(p), 'a': st.tuples(ver_st(), st.sampled_from(PATCHES[p])).map(list), 'b': st.tuples(ver_st(), st.sampled_from(PATCHES[p])).map(list)}))


def strat_pair_close():
    """Pairs that share a prefix and differ in one component: the interesting neighbourhood."""
    def mk(t):
        p, base, i, x, y, pa, pb = t
        i = i % len(base)
        a, b = list(base), list(base)
        a[i], b[i] = x, y
        return {'kind': 'pair', 'product': p, 'a': ['.'.join(map(str, a)), PATCHES[p][pa % len(PATCHES[p])]], 'b': ['.'.join(map(str, b)), PATCHES[p][pb % len(PATCHES[p])]]}
    return st.tuples(st.sampled_from(sorted(PATCHES)), st.lists(st.sampled_from(COMPONENTS), min_size=1, max_size=4), st.integers(0, 3), st.sampled_from(COMPONENTS), st.sampled_from(COMPONENTS), st.integers(0, 2), st.integers(0, 2)).map(mk)


def strat_triple():
    return st.sampled_from(sorted(PATCHES)).flatmap(lambda p: st.fixed_dictionaries({'kind': st.just('triple'), 'product': st.just(p), 'a': st.tuples(ver_st(), st.sampled_from(PATCHES[p])).map(list), 'b': st.tuples(ver_st(), st.sampled_from(PATCHES[p])).map(list), 'c': st.tuples(ver_st(), st.sampled_from(PATCHES[p])).map(list)}))


def strat_triple_close():
    def mk(t):
        p, major, comps, pats = t
        vs = [['%d.%d' % (major, c), PATCHES[p][q % len(PATCHES[p])]] for c, q in zip(comps, pats)]
        return {'kind': 'triple', 'product': p, 'a': vs[0], 'b': vs[1], 'c': vs[2]}
    return st.tuples(st.sampled_from(sorted(PATCHES)), st.sampled_from([0, 7, 9, 10, 2020]), st.lists(st.sampled_from(COMPONENTS), min_size=3, max_size=3), st.lists(st.integers(0, 2), min_size=3, max_size=3)).map(mk)


def strat_timeframe2():
    prod = st.sampled_from(['OpenSSH', 'Dropbear SSH', 'libssh'])
    entry = st.lists(st.tuples(prod, ver_st()), min_size=0, max_size=3, unique_by=lambda t: t[0]).map(lambda l: [list(x) for x in l])
    return st.fixed_dictionaries({'kind': st.just('timeframe2'), 'updates': st.lists(st.tuples(entry, entry).map(list), min_size=1, max_size=5)})


def strat_timeframe():
    return st.fixed_dictionaries({'kind': st.just('timeframe'), 'product': st.sampled_from(sorted(PATCHES)), 'since': st.lists(ver_st(), min_size=1, max_size=5)})


def run(ctx):
    q = ctx.quick
    # exhaustive small grid: all 1-2 component versions over a boundary subset, all patch combinations
    small = [0, 1, 2, 9, 10, 11, 12, 99, 100]
    vers = ['%d' % a for a in small] + ['%d.%d' % (a, b) for a in small for b in small]
    cases = []
    for p in sorted(PATCHES):
        for a, b in itertools.product(vers, repeat=2):
            cases.append({'kind': 'pair', 'product': p, 'a': [a, ''], 'b': [b, '']})
        for a in vers[:30]:
            for pa, pb in itertools.product(PATCHES[p], repeat=2):
                cases.append({'kind': 'pair', 'product': p, 'a': [a, pa], 'b': [a, pb]})
    ctx.map(cases, chunk=1000)
    f = 1 if q else 25
    ctx.hyp('strat_pair', 30000 * f, label=1)
    ctx.hyp('strat_pair_close', 30000 * f, label=2)
    ctx.hyp('strat_pair_wide', 6000 * f, label=7)
    thr = []
    VS = {'OpenSSH': [['9.9', ''], ['10.0', ''], ['9.9', 'p1'], ['8.2', 'p1'], ['10.0', 'p2'], ['7.4', '']], 'libssh': [['0.7.0', ''], ['0.10.6', ''], ['0.9.8', ''], ['0.11.1', '']], 'Dropbear SSH': [['2020.81', ''], ['2024.86', ''], ['0.52', ''], ['2019.78', 'test1']]}
    for i in range(6 if ctx.quick else 60):
        p = sorted(VS)[i % 3]
        thr.append({'kind': 'cmp_threads', 'product': p, 'versions': VS[p], 'threads': 2 + i % 5, 'reps': 1500 if ctx.quick else 4000, 'rotate': i % 2 == 1})
    ctx.map(thr, chunk=1)
    ctx.hyp('strat_triple', 10000 * f, label=3)
    ctx.hyp('strat_triple_close', 10000 * f, label=4)
    ctx.hyp('strat_timeframe', 5000 * f, label=5)
    ctx.hyp('strat_timeframe2', 5000 * f, label=8)
    # CLI level: banners at versions around every first-appeared version of each product and at multi-digit versions
    from ssh_audit.ssh2_kexdb import SSH2_KexDB
    vs = {p: set() for p in BANNER_FMT}
    for cat, d in SSH2_KexDB.MASTER_DB.items():
        for name, e in d.items():
            for p, v, c in (refmodel.first_versions(e) or []):
                if p in vs:
                    vs[p].add(v)
    cli = []
    for p, s in vs.items():
        extra = {'OpenSSH': ['10.0', '10.1', '9.10', '12.3', '99.0', '7.10'], 'Dropbear SSH': ['2024.86', '2025.87', '0.100', '10000.1'], 'libssh': ['0.10.6', '0.11.0', '0.9.10', '1.0.0', '10.0.0']}[p]
        for v in sorted(s, key=refmodel.vtuple) + extra:
            for patch in (PATCHES[p] if q else PATCHES[p]):
                cli.append({'kind': 'cli', 'product': p, 'ver': v, 'patch': patch})
            t = list(refmodel.vtuple(v))
            if t[-1] > 0:
                t2 = t[:-1] + [t[-1] - 1]
                cli.append({'kind': 'cli', 'product': p, 'ver': '.'.join(map(str, t2)), 'patch': ''})
            t3 = t[:-1] + [t[-1] + 1]
            cli.append({'kind': 'cli', 'product': p, 'ver': '.'.join(map(str, t3)), 'patch': ''})
            if len(t) >= 3:
                # a release written with fewer components than the table's version (0.4 against 0.4.1): numerically older
                cli.append({'kind': 'cli', 'product': p, 'ver': '.'.join(map(str, t[:-1])), 'patch': ''})
                cli.append({'kind': 'cli', 'product': p, 'ver': '.'.join(map(str, t + [0])), 'patch': ''})
                cli.append({'kind': 'cli', 'product': p, 'ver': '.'.join(map(str, t + [1])), 'patch': ''})
    # releases whose text merely *contains* a version of the table (in front of it, behind it, as digits of a longer number)
    for p, s2 in vs.items():
        for v in sorted(s2, key=refmodel.vtuple):
            if '.' not in v:
                continue
            for ver in ('1.' + v, '2.' + v, '1' + v, v + '9', v + '.0.0.1', '0.' + v, v.replace('.', '.0', 1), '1' + v.replace('.', '.1', 1)):
                if len(cli) % (3 if q else 1) == 0:
                    cli.append({'kind': 'cli', 'product': p, 'ver': ver, 'patch': ''})
                else:
                    cli.append(None)
    cli = [c for c in cli if c is not None]
    # long version texts: four components of three and four digits each (what a cap on the token's length would cut)
    for p in vs:
        for ver in ('2024.2025.100.101', '2024.2025.100.10', '2011.2012.2013.2014', '100.101.2024.12', '9.10.2024.2025', '12.101.100.2024', '2024.2024.2024.2023'):
            for patch in PATCHES[p][:2]:
                cli.append({'kind': 'cli', 'product': p, 'ver': ver, 'patch': patch})
    ctx.map(cli)
    seq = []
    for p, s_ in vs.items():
        for v in sorted(s_, key=refmodel.vtuple):
            pats = [x for x in PATCHES[p] if x]
            for pat in pats[:1]:
                seq.append({'kind': 'cli-seq', 'product': p, 'servers': [[v, pat], [v, ''], [v, pats[-1]]]})
                seq.append({'kind': 'cli-seq', 'product': p, 'servers': [[v, ''], [v, pat]]})
            t = list(refmodel.vtuple(v))
            lower = '.'.join(map(str, t[:-1] + [max(t[-1] - 1, 0)]))
            seq.append({'kind': 'cli-seq', 'product': p, 'servers': [[lower, ''], [v, ''], [lower, '']]})
    ctx.map(seq)
    ctx.note(cli_cases=len(cli), enumerated_pairs=len(cases))
    return ctx.finish('exploration', 'pairs/triples of version strings with 1-4 components from {0..12, 99..101, 2011..2024} and product patch suffixes (Hypothesis, plus an exhaustive 1-2 component grid); CLI banners at, just below and just above every first-appeared version in the table and at multi-digit versions; non-trivial = a component >= 10 is involved',
                      assumptions=['numeric order = Python tuple-of-int comparison; prefix-related versions (7.4 vs 7.4.0) are exempt from the sign rule, equal versions only need the order axioms'])

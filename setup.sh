#!/bin/bash
# Offline setup: put hypothesis (and atheris for the fuzz tier) beside the repo's packages without
# touching /venv.  Everything comes from the wheelhouse on disk.
set -e
HERE="$(cd "$(dirname "${BASH_SOURCE[0]}")" && pwd)"
mkdir -p "$HERE/.deps"
if [ ! -d "$HERE/.deps/hypothesis" ]; then
    PIP_NO_INDEX=1 /venv/bin/python -m pip install --quiet --no-index --find-links /opt/veriftools/wheels --target "$HERE/.deps" hypothesis
fi
if [ ! -d "$HERE/.deps/atheris" ]; then
    PIP_NO_INDEX=1 /venv/bin/python -m pip install --quiet --no-index --find-links /opt/veriftools/wheels --target "$HERE/.deps" atheris || echo "atheris not installed (fuzz tier will be skipped)"
fi
mkdir -p "$HERE/evidence" "$HERE/replays"
echo setup-ok

"""Engine A / engine B agreement: the same scripted peer is audited once in-process over the virtual
network and once by the real /repo/ssh-audit.py process over loopback TCP; exit status and stdout
must be identical.  A disagreement is harness infidelity (RuntimeError -> exit 2), never a VIOLATION.
"""
import difflib

from . import fakenet, drive


def run_both(spec, argv, timeout_opt=None, client=False, real_pow=False, hashseed='0', skip_rate=True):
    """Returns (result_A, result_B, peer_B, servers_B).  Target is 127.0.0.1:<ephemeral> in both."""
    peer_b = fakenet.peer_from_spec(spec)
    extra = (['-t', str(timeout_opt)] if timeout_opt else [])
    with drive.RealServers([peer_b]) as rs:
        port = rs.ports[0]
        rb = drive.run_subprocess(list(argv) + extra + (['--skip-rate-test'] if skip_rate else []) + ['-p', str(port), '127.0.0.1'], env_extra={'PYTHONHASHSEED': hashseed})
        eof = list(rs.eof_seen)
        # give the server threads a moment to observe the client's FIN after process exit
        import time
        t0 = time.time()
        while len(rs.eof_seen) < peer_b.nconn and time.time() - t0 < 2:
            time.sleep(0.02)
        eof = list(rs.eof_seen)
    net = fakenet.FakeNet()
    peer_a = fakenet.peer_from_spec(spec)
    net.add('127.0.0.1', port, peer_a, ips=[(2, '127.0.0.1')])
    ra = drive.run_cli(list(argv) + extra + (['--skip-rate-test'] if skip_rate else []) + ['-p', str(port), '127.0.0.1'], net)
    return ra, rb, peer_a, peer_b, eof


def assert_agree(ra, rb, what):
    """Strict mode (VERIF_STRICT_AB=1, used while developing the harness): a disagreement is a harness error.
    Default: returns False and the caller records the case under the class 'AB-disagree' (reported in evidence);
    the property itself is then judged on the real process's output where the check does so."""
    import os
    if (ra.code, ra.out) != (rb.code, rb.out) and not os.environ.get('VERIF_STRICT_AB'):
        return False
    if (ra.code, ra.out) != (rb.code, rb.out):
        d = list(difflib.unified_diff(rb.out.split('\n'), ra.out.split('\n'), 'engine-B', 'engine-A', lineterm='', n=0))[:10]
        raise RuntimeError('engine A and engine B disagree on %s: exit %r (A) vs %r (B); %r' % (what, ra.code, rb.code, d))
    return True

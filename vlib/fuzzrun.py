"""Runs sharded atheris campaigns (libFuzzer is single-process) and feeds what they found into a Ctx."""
import json
import os
import shutil
import subprocess
import sys

from .runner import VERIF, mkres

PY = '/venv/bin/python'


def available():
    return os.path.isdir(os.path.join(VERIF, '.deps', 'atheris'))


def run_campaign(target, runs, shards, seed, seeds_corpus=None, max_len=4096, timeout=3600):
    """Returns (total execs, list of finding dicts).  Half of the shards start from an empty corpus,
    half from `seeds_corpus` (list of bytes) when given."""
    work = os.path.join(VERIF, '.work', 'fuzz', target)
    shutil.rmtree(work, ignore_errors=True)
    procs = []
    for i in range(shards):
        d = os.path.join(work, 'shard%d' % i)
        os.makedirs(os.path.join(d, 'corpus'))
        if seeds_corpus and i % 2 == 1:
            for j, b in enumerate(seeds_corpus):
                with open(os.path.join(d, 'corpus', 'seed%d' % j), 'wb') as f:
                    f.write(b)
        out = os.path.join(d, 'findings.jsonl')
        env = dict(os.environ)
        env['VERIF_FUZZ_TARGET'] = target
        env['VERIF_FUZZ_OUT'] = out
        env['PYTHONPATH'] = os.pathsep.join([os.path.join(VERIF, '.deps'), VERIF, os.path.join(os.environ.get('VERIF_REPO_ROOT', '/repo'), 'src')])
        cmd = [PY, os.path.join(VERIF, 'fuzz', 'driver.py'), '-runs=%d' % runs, '-seed=%d' % (seed * 100 + i + 1), '-max_len=%d' % max_len, '-print_final_stats=0', os.path.join(d, 'corpus')]
        procs.append((subprocess.Popen(cmd, env=env, stdout=subprocess.DEVNULL, stderr=subprocess.DEVNULL, cwd=VERIF), out))
    total = 0
    nontrivial = 0
    findings = []
    errors = []
    for p, out in procs:
        try:
            rc = p.wait(timeout)
        except subprocess.TimeoutExpired:
            p.kill()
            rc = -9
        if rc not in (0,):
            errors.append(rc)
        if os.path.exists(out + '.stats'):
            st = json.load(open(out + '.stats'))
            total += st['execs']
            nontrivial += st['nontrivial']
        if os.path.exists(out):
            for line in open(out):
                findings.append(json.loads(line))
    shutil.rmtree(work, ignore_errors=True)
    return total, nontrivial, findings, errors


def run_into(ctx, target, runs, shards, seeds_corpus=None, max_len=4096):
    if not available():
        ctx.note(**{'fuzz_%s' % target: 'atheris not installed; campaign skipped'})
        return
    total, nontrivial, findings, errors = run_campaign(target, runs, shards, ctx.seed, seeds_corpus, max_len)
    results = []
    for f in findings:
        case = {'kind': 'fuzz', 'target': target, 'input': f['input']}
        results.append(mkres(case, nt=True, classes=['fuzz:' + target], fails=[[f['sig'], f['detail']]]))
    ctx.consume(results)
    ctx.note(**{'fuzz_%s' % target: {'executions': total, 'inputs_longer_than_8_bytes': nontrivial, 'shards': shards, 'runs_per_shard': runs, 'distinct_signatures': sorted({f['sig'] for f in findings}), 'driver_exit_errors': errors}})
    if errors and total == 0:
        raise RuntimeError('atheris campaign %s failed to run: %r' % (target, errors))


def eval_fuzz_case(case):
    """Replay path: run the saved input through the target without the fuzzer."""
    from fuzz import targets
    import fuzz.targets_c09  # noqa: F401
    import fuzz.targets_c16  # noqa: F401
    fails = targets.TARGETS[case['target']](bytes.fromhex(case['input']))
    return mkres(case, nt=True, classes=['fuzz:' + case['target']], fails=fails)

"""Deterministic scheduler for multi-target runs (C07/C08): the harness owns the interleaving.

`ssh_audit.ssh_audit.target_worker_thread` is wrapped (the wrapper calls the original; main() looks
the name up at call time).  Every worker stops at *gate points* — its start and each connection
attempt it makes — and exactly one waiting worker is released at a time, chosen by a generated
list of integers.  A release happens only when every active worker is waiting, so the whole run is a
deterministic function of (targets, threads, choices): both the assignment of targets to worker
threads and the interleaving of the targets' connection events are controlled.
"""
import threading


class Scheduler:
    def __init__(self, n_targets, threads, choices, gate_connections=True):
        self.n = n_targets
        self.k = threads
        self.choices = list(choices) or [0]
        self.step = 0
        self.cv = threading.Condition()
        self.waiting = {}            # target -> thread id
        self.finished = 0
        self.running = None
        self.trace = []              # (event, target, thread id)
        self.local = threading.local()
        self.gate_connections = gate_connections
        self.broken = False
        self.seq = 0

    def expected_waiting(self):
        return min(self.k, self.n - self.finished)

    def _gate(self, target, event):
        with self.cv:
            if self.running == target:
                self.running = None
            self.waiting[target] = threading.get_ident()
            self.cv.notify_all()
            spins = 0
            while True:
                if self.broken:
                    break
                if self.running is None and len(self.waiting) >= self.expected_waiting():
                    order = sorted(self.waiting)
                    pick = order[self.choices[self.step % len(self.choices)] % len(order)]
                    if pick == target:
                        self.step += 1
                        self.running = target
                        del self.waiting[target]
                        break
                if not self.cv.wait(0.5):
                    spins += 1
                    if spins > 60:          # 30 s without progress: give up gating rather than hang
                        self.broken = True
                        self.cv.notify_all()
                        break
            self.trace.append((event, target, threading.get_ident()))

    def connection_point(self):
        """Called by the virtual network whenever the current thread is about to open a connection."""
        t = getattr(self.local, 'target', None)
        if t is not None and self.gate_connections:
            self._gate(t, 'connect')

    def wrap(self, orig):
        def w(host, port, aconf):
            with self.cv:
                self.seq += 1
                name = '%s:%s#%d' % (host, port, self.seq)     # unique even when a target is listed twice
            self.local.target = name
            self._gate(name, 'start')
            try:
                return orig(host, port, aconf)
            finally:
                with self.cv:
                    if self.running == name:
                        self.running = None
                    self.finished += 1
                    self.local.target = None
                    self.trace.append(('finish', name, threading.get_ident()))
                    self.cv.notify_all()
        return w

    def thread_assignment(self):
        res = {}
        for ev, t, tid in self.trace:
            if ev == 'start':
                res.setdefault(tid, []).append(t)
        return list(res.values())

    def interleaved(self):
        """True if some target's events are interrupted by another target's connection."""
        seq = [t for ev, t, _ in self.trace if ev in ('start', 'connect')]
        seen_done = set()
        last = None
        for t in seq:
            if t != last:
                if t in seen_done:
                    return True
                if last is not None:
                    seen_done.add(last)
                last = t
        return False


def run_scheduled(argv, net, n_targets, threads, choices, gate_connections=True):
    from ssh_audit import ssh_audit as sa
    from . import drive
    sch = Scheduler(n_targets, threads, choices, gate_connections)
    orig = sa.target_worker_thread
    sa.target_worker_thread = sch.wrap(orig)
    net.gate = sch
    try:
        r = drive.run_cli(argv, net)
    finally:
        sa.target_worker_thread = orig
        net.gate = None
    return r, sch

"""Drivers: engine A (in-process CLI over FakeNet) and engine B (real process over loopback TCP)."""
import io
import os
import signal
import socket
import subprocess
import sys
import tempfile
import threading
import traceback

from . import fakenet

REPO_ROOT = os.environ.get('VERIF_REPO_ROOT', '/repo')
PYTHON = '/venv/bin/python'


class Result:
    __slots__ = ('code', 'out', 'err', 'exc', 'exc_type', 'exc_where', 'hang', 'net', 'sysexit')

    def __init__(self):
        self.code = None
        self.out = ''
        self.err = ''
        self.exc = None        # traceback text of an uncaught Exception (what ssh-audit.py would print)
        self.exc_type = None
        self.exc_where = None  # innermost ssh_audit function in the traceback
        self.hang = None
        self.net = None
        self.sysexit = False

    def brief(self):
        return {'code': self.code, 'exc': (self.exc_type, self.exc_where), 'hang': self.hang, 'out_tail': self.out[-300:]}


def _norm_exit(code):
    if code is None:
        return 0
    if isinstance(code, int):
        return code & 0xff
    return 1


_SNAPSHOT = None


def _mutable_state():
    """Every module-level / class-level mutable container of the ssh_audit package and every mutable default
    argument of its functions: the places where state can survive from one audit to the next inside a process."""
    import types
    seen = set()

    def containers_of(ns, owner):
        for attr, val in list(ns.items()):
            if attr.startswith('__') and attr.endswith('__'):
                continue
            if isinstance(val, (dict, list, set)):
                yield val
            f = val.__func__ if isinstance(val, (staticmethod, classmethod)) else val
            if isinstance(f, types.FunctionType):
                for d in (f.__defaults__ or ()):
                    if isinstance(d, (dict, list, set)):
                        yield d
                for d in (f.__kwdefaults__ or {}).values():
                    if isinstance(d, (dict, list, set)):
                        yield d
            if isinstance(val, type) and getattr(val, '__module__', '').startswith('ssh_audit') and id(val) not in seen:
                seen.add(id(val))
                yield from containers_of(vars(val), val)
    for name, mod in list(sys.modules.items()):
        if name == 'ssh_audit' or name.startswith('ssh_audit.'):
            if mod is not None:
                yield from containers_of(vars(mod), mod)


def fresh_process_state():
    """What a new interpreter would start with.  The first call (made before anything has run in this process)
    snapshots all mutable package state; every later call puts it back, so that caches, memo tables, mutable
    default arguments and per-thread tables never carry over from one simulated process to the next."""
    global _SNAPSHOT
    import copy
    import ssh_audit.ssh_audit  # noqa: F401  (imports the whole package)
    if _hangs_seen[0]:
        _replace_held_locks()
    if _SNAPSHOT is None:
        _SNAPSHOT = []
        ids = set()
        for c in _mutable_state():
            if id(c) not in ids:
                ids.add(id(c))
                _SNAPSHOT.append((c, copy.deepcopy(c)))
        return
    for c, snap in _SNAPSHOT:
        if c != snap:
            if isinstance(c, list):
                c[:] = copy.deepcopy(snap)
            else:
                c.clear()
                c.update(copy.deepcopy(snap))
    # containers that did not exist at snapshot time (e.g. created lazily) are emptied
    known = {id(c) for c, _ in _SNAPSHOT}
    for c in _mutable_state():
        if id(c) not in known and len(c) and not getattr(c, '_verif_keep', False):
            try:
                c.clear()
            except Exception:
                pass


_hangs_seen = [0]


def _replace_held_locks():
    """After a run of this process was cut off, threads of that run may sit blocked for good while holding (or having
    left locked) a module- or class-level lock of the package; a new interpreter would start with free ones."""
    lock_types = (type(threading.Lock()), type(threading.RLock()))
    for name, mod in list(sys.modules.items()):
        if not name.startswith('ssh_audit') or mod is None:
            continue
        owners = [mod] + [v for v in vars(mod).values() if isinstance(v, type) and getattr(v, '__module__', '') == name]
        for o in owners:
            for k, v in list(vars(o).items()):
                if isinstance(v, lock_types):
                    try:
                        setattr(o, k, type(v)() if not isinstance(v, type(threading.Lock())) else threading.Lock())
                    except Exception:
                        pass


class _Watchdog:
    """SIGALRM based guard for the (single-threaded) in-process run; 0 disables.  Runs take milliseconds, so once a
    run of this process has been cut off by the watchdog the following ones get a tenth of the time: a change that makes
    a whole family of cases spin must not cost two minutes per case."""

    def __init__(self, seconds):
        self.seconds = seconds if not _hangs_seen[0] else max(5, seconds // (10 if _hangs_seen[0] < 3 else 24))
        self.old = None

    def __enter__(self):
        if self.seconds and threading.current_thread() is threading.main_thread():
            def h(signum, frame):
                _hangs_seen[0] += 1
                raise fakenet.HarnessHang('wall-clock watchdog (%ds)' % self.seconds)
            self.old = signal.signal(signal.SIGALRM, h)
            # repeating: the first alarm may be swallowed by clean-up code that waits again (an executor joining
            # worker threads which are blocked for good); every further one interrupts that wait as well
            signal.setitimer(signal.ITIMER_REAL, self.seconds, 3)
        return self

    def __exit__(self, *a):
        if self.old is not None:
            signal.setitimer(signal.ITIMER_REAL, 0)
            signal.signal(signal.SIGALRM, self.old)


def run_cli(argv, net, watchdog=120, fresh=True):
    """Run ssh_audit.ssh_audit.main() exactly as /repo/ssh-audit.py does and map the outcome to a
    process exit status.  Returns Result."""
    from ssh_audit import ssh_audit as sa
    from ssh_audit import exitcodes
    if fresh:
        fresh_process_state()
    res = Result()
    res.net = net
    old_argv, old_out, old_err = sys.argv, sys.stdout, sys.stderr
    buf, ebuf = io.StringIO(), io.StringIO()
    sys.argv = ['ssh-audit.py'] + [str(a) for a in argv]
    sys.stdout, sys.stderr = buf, ebuf
    had_nocolor = os.environ.pop('NO_COLOR', None)
    code = None
    try:
        with net.installed(), _Watchdog(watchdog):
            try:
                code = sa.main()
            except SystemExit as e:
                code = e.code
                res.sysexit = True
                if not isinstance(code, int) and code is not None:
                    print(code, file=sys.stderr)
            except fakenet.HarnessHang as e:
                signal.setitimer(signal.ITIMER_REAL, 0)
                res.hang = str(e)
                code = -9
            except Exception as e:   # what ssh-audit.py does
                code = exitcodes.UNKNOWN_ERROR
                res.exc = traceback.format_exc()
                res.exc_type = type(e).__name__
                tb = traceback.extract_tb(e.__traceback__)
                fr = [f for f in tb if '/ssh_audit/' in f.filename]
                res.exc_where = fr[-1].name if fr else ''
                print(res.exc)
    finally:
        sys.argv, sys.stdout, sys.stderr = old_argv, old_out, old_err
        if had_nocolor is not None:
            os.environ['NO_COLOR'] = had_nocolor
    res.code = _norm_exit(code)
    res.out = buf.getvalue()
    res.err = ebuf.getvalue()
    return res


def crash_sig(res):
    """Root-cause signature of an uncaught exception: (type, innermost ssh_audit function)."""
    return 'crash:%s@%s' % (res.exc_type, res.exc_where)


# ------------------------------------------------------------------------------------- engine B

class RealServers:
    """Serve scripted peers on 127.0.0.1 ephemeral ports with real sockets (threaded)."""

    def __init__(self, peers):
        self.peers = peers
        self.listeners = []
        self.ports = []
        self.threads = []
        self.socks = []
        self.stop = False
        self.eof_seen = []     # (peer index, conn idx) for which the client side closed
        self.lock = threading.Lock()

    def __enter__(self):
        for i, p in enumerate(self.peers):
            ls = socket.socket(socket.AF_INET, socket.SOCK_STREAM)
            ls.setsockopt(socket.SOL_SOCKET, socket.SO_REUSEADDR, 1)
            ls.bind(('127.0.0.1', 0))
            ls.listen(128)
            ls.settimeout(0.05)
            self.listeners.append(ls)
            self.ports.append(ls.getsockname()[1])
            t = threading.Thread(target=self._accept_loop, args=(i, ls, p), daemon=True)
            t.start()
            self.threads.append(t)
        return self

    def __exit__(self, *a):
        self.stop = True
        for ls in self.listeners:
            try:
                ls.close()
            except OSError:
                pass
        for t in self.threads:
            t.join(2)
        with self.lock:
            for s in self.socks:
                try:
                    s.close()
                except OSError:
                    pass

    def _accept_loop(self, i, ls, peer):
        while not self.stop:
            try:
                s, _ = ls.accept()
            except (socket.timeout, OSError):
                continue
            with self.lock:
                self.socks.append(s)
            t = threading.Thread(target=self._serve, args=(i, s, peer), daemon=True)
            t.start()
            self.threads.append(t)

    def _serve(self, i, s, peer):
        conn = peer.accept(False)
        s.settimeout(0.02)
        try:
            while not self.stop:
                if conn.out:
                    data = bytes(conn.out)
                    del conn.out[:len(data)]
                    d = peer.spec.get('reply_delay') if hasattr(peer, 'spec') else None
                    if d:
                        import time as _t
                        _t.sleep(d)              # a slow but answering peer (real time: engine B only)
                    s.sendall(data)
                if conn.closed_by_server and not conn.out:
                    if getattr(conn, 'reset', False):
                        import struct as _st
                        s.setsockopt(socket.SOL_SOCKET, socket.SO_LINGER, _st.pack('ii', 1, 0))
                        break                       # close() in the finally clause now sends RST
                    try:
                        s.shutdown(socket.SHUT_WR)
                    except OSError:
                        pass
                    # keep reading until the client closes so EOF is observed
                try:
                    d = s.recv(65536)
                except socket.timeout:
                    continue
                except OSError:
                    break
                if d == b'':
                    with self.lock:
                        self.eof_seen.append((i, conn.idx))
                    break
                if not conn.closed_by_server:
                    conn.client_send(d)
        except OSError:
            pass
        finally:
            try:
                s.close()
            except OSError:
                pass


class Inconclusive(Exception):
    """A wall-clock budget was hit in engine B: says nothing about the property (never a violation, never a harness error)."""


def run_subprocess(argv, env_extra=None, timeout=180, stdin=None):
    env = dict(os.environ)
    env.pop('NO_COLOR', None)
    env['PYTHONPATH'] = os.path.join(REPO_ROOT, 'src')
    env.setdefault('PYTHONHASHSEED', '0')
    if env_extra:
        env.update(env_extra)
    try:
        p = subprocess.run([PYTHON, os.path.join(REPO_ROOT, 'ssh-audit.py')] + [str(a) for a in argv], env=env, stdout=subprocess.PIPE, stderr=subprocess.PIPE, timeout=timeout, stdin=subprocess.DEVNULL)
    except subprocess.TimeoutExpired:
        raise Inconclusive('real process did not finish within %d s' % timeout) from None
    r = Result()
    r.code = p.returncode & 0xff
    r.out = p.stdout.decode('utf-8', 'replace')
    r.err = p.stderr.decode('utf-8', 'replace')
    if 'Traceback (most recent call last)' in r.out and r.code == 255:
        r.exc = r.out
    return r


def tmpfile(text, suffix='.txt'):
    f = tempfile.NamedTemporaryFile('w', delete=False, suffix=suffix, dir=os.environ.get('VERIF_TMP', None), encoding='utf-8', newline='')
    f.write(text)
    f.close()
    return f.name

"""Line coverage of the ssh_audit package under a check (diagnostic only, VERIF_COV=<dir>): which parts of
the code behind a property the generators actually reach.  Uses sys.monitoring (each line reports once)."""
import json
import os
import sys

_lines = set()
_on = False
DIR = os.environ.get('VERIF_COV')


def start():
    global _on
    if _on or not DIR:
        return
    _on = True
    mon = sys.monitoring
    tid = mon.COVERAGE_ID
    try:
        mon.use_tool_id(tid, 'verif-cov')
    except ValueError:
        return

    def on_line(code, line):
        fn = code.co_filename
        if '/ssh_audit/' in fn:
            _lines.add((fn.rsplit('/ssh_audit/', 1)[1], line))
        return mon.DISABLE
    mon.register_callback(tid, mon.events.LINE, on_line)
    mon.set_events(tid, mon.events.LINE)


def dump():
    if not _on:
        return
    os.makedirs(DIR, exist_ok=True)
    with open(os.path.join(DIR, '%d.json' % os.getpid()), 'w') as f:
        json.dump(sorted(_lines), f)

"""Independent parsers of what ssh-audit prints: text report (plain, batch, verbose, colour),
JSON report, policy output and multi-target blocks.  They turn stdout into normalised findings."""
import json
import re

ANSI = re.compile(r'\x1b\[[0-9;]*m')
ALG_LINE = re.compile(r'^\((kex|key|enc|mac|aut)\) ([^ ]+)(?: \(([^)]*-bit[^)]*)\))? *(?:-- \[(fail|warn|info)\] (.*))?$')
CONT_LINE = re.compile(r'^ +`- \[(fail|warn|info)\] (.*)$')
GEN_LINE = re.compile(r'^\(gen\) ([a-zA-Z0-9 ]+?): ?(.*)$')
REC_LINE = re.compile(r'^\(rec\) ([-+!])(\S+)\s*-- (kex|key|enc|mac) algorithm to (remove|append|change)(?: \((.*)\))? $')
FIN_LINE = re.compile(r'^\(fin\) ([^:]+): (\S+)(?: -- \[info\] (.*))?$')
SEP = '-' * 80
CATS = ('kex', 'key', 'enc', 'mac')


def strip_ansi(s):
    return ANSI.sub('', s)


class TextReport:
    def __init__(self, out, verbose=False):
        self.raw = out
        self.lines = [l for l in strip_ansi(out).split('\n')]
        self.nonblank = [l for l in self.lines if l.strip() != '']
        self.gen = {}         # key -> list of values
        self.algs = {}        # cat -> list of dict(name, size, notes=[(sev, text)])
        self.rec = []         # (sign, name, cat, action, notes)
        self.fin = []         # (type, hash, note)
        self.nfo = []
        self.sec = []
        self.other = []
        self.headings = []
        cur = None
        for l in self.lines:
            m = ALG_LINE.match(l)
            if m:
                cat, name, size, sev, text = m.groups()
                lst = self.algs.setdefault(cat, [])
                if verbose and lst and lst[-1]['name'] == name and lst[-1]['size'] == size:
                    # verbose rendering repeats the name once per note
                    cur = lst[-1]
                else:
                    cur = {'name': name, 'size': size, 'notes': []}
                    lst.append(cur)
                if sev is not None:
                    cur['notes'].append((sev, text))
                continue
            m = CONT_LINE.match(l)
            if m and cur is not None:
                cur['notes'].append((m.group(1), m.group(2)))
                continue
            cur = None
            m = GEN_LINE.match(l)
            if m:
                self.gen.setdefault(m.group(1), []).append(m.group(2))
                continue
            m = REC_LINE.match(l)
            if m:
                self.rec.append(m.groups())
                continue
            m = FIN_LINE.match(l)
            if m:
                self.fin.append(m.groups())
                continue
            if l.startswith('(nfo) '):
                self.nfo.append(l[6:])
                continue
            if l.startswith('(sec) '):
                self.sec.append(l[6:])
                continue
            if l.startswith('# '):
                self.headings.append(l[2:])
                continue
            if l.strip():
                self.other.append(l)

    def names(self, cat):
        return [a['name'] for a in self.algs.get(cat, [])]

    def has_algorithm_report(self):
        return any(self.algs.get(c) for c in ('kex', 'key', 'enc', 'mac', 'aut'))

    def findings(self, min_sev=None):
        """Set of (cat, name, severity, note) for notes with non-empty text."""
        res = []
        for cat, lst in self.algs.items():
            for a in lst:
                for sev, text in a['notes']:
                    res.append((cat, a['name'], sev, text))
        return res

    def severities(self):
        return {sev for _, _, sev, _ in self.findings()} - {'info'}


def parse_json_doc(out):
    """The whole stdout must be exactly one JSON document."""
    return json.loads(out)


class JsonReport:
    def __init__(self, doc):
        self.doc = doc

    def names(self, cat):
        return [e['algorithm'] for e in self.doc.get(cat, [])]

    def findings(self):
        res = []
        for cat in CATS:
            for e in self.doc.get(cat, []) or []:
                for sev in ('fail', 'warn', 'info'):
                    for t in e.get('notes', {}).get(sev, []) or []:
                        res.append((cat, e['algorithm'], sev, t))
        return res

    def severities(self):
        return {sev for _, _, sev, _ in self.findings()} - {'info'}

    def recs(self):
        """list of (level, action, cat, name, notes)"""
        res = []
        for level, acts in (self.doc.get('recommendations') or {}).items():
            for action, cats in acts.items():
                for cat, lst in cats.items():
                    for it in lst:
                        res.append((level, action, cat, it['name'], it.get('notes', '')))
        return res


def split_blocks(out, json_mode=False):
    """Multi-target text output: blocks separated by the 80-dash line."""
    blocks = []
    cur = []
    for l in out.split('\n'):
        if strip_ansi(l) == SEP:
            blocks.append('\n'.join(cur))
            cur = []
        else:
            cur.append(l)
    blocks.append('\n'.join(cur))
    return blocks


def policy_result(out):
    """Parse text policy output -> dict(host, policy, passed, errors_text)."""
    t = strip_ansi(out)
    d = {'passed': None, 'host': None, 'policy': None, 'errors': ''}
    m = re.search(r'^Host:\s+(.*)$', t, re.M)
    if m:
        d['host'] = m.group(1).strip()
    m = re.search(r'^Policy:\s+(.*)$', t, re.M)
    if m:
        d['policy'] = m.group(1).strip()
    m = re.search(r'^Result:\s+(.*)$', t, re.M)
    if m:
        r = m.group(1)
        if 'Passed' in r:
            d['passed'] = True
        elif 'Failed' in r:
            d['passed'] = False
    i = t.find('\nErrors:\n')
    if i >= 0:
        d['errors'] = t[i + 9:]
    d['error_fields'] = re.findall(r'^  \* (.*) did not match\.$', t, re.M)
    return d

"""Engine A: an in-process virtual network, resolver, select and clock, plus scripted SSH peers.

Only stdlib entry points that ssh-audit reaches through their modules are replaced
(socket.socket, socket.getaddrinfo, select.select, and the `time` name inside ssh_audit.dheat).
Everything a peer does is described by a JSON-serialisable *spec* so that any case can be written
to a replay file and re-executed without the generator.
"""
import builtins
import contextlib
import errno
import os
import select
import socket
import struct
import threading
import weakref

from . import wire

_real_socket = socket.socket
_real_getaddrinfo = socket.getaddrinfo
_real_select = select.select


def b2j(b):
    return bytes(b).decode('latin-1')


def j2b(s):
    return s if isinstance(s, (bytes, bytearray)) else s.encode('latin-1')


# ------------------------------------------------------------------------------- blobs from specs

def blob_from_spec(sp):
    t = sp['t']
    if t == 'rsa':
        return wire.rsa_blob(sp['bits'])
    if t == 'ed25519':
        return wire.ed25519_blob()
    if t == 'ed448':
        return wire.ed448_blob()
    if t == 'ecdsa':
        return wire.ecdsa_blob(sp.get('curve', 'nistp256'))
    if t == 'dss':
        return wire.dss_blob(sp.get('bits', 1024))
    if t == 'sk-ed25519':
        return wire.sk_ed25519_blob()
    if t == 'sk-ecdsa':
        return wire.sk_ecdsa_blob()
    if t == 'cert':
        return wire.cert_blob(sp['kind'], sp.get('bits', 0), blob_from_spec(sp['ca']), sp.get('cert_type', 2), fields=sp.get('fields'))
    if t == 'raw':
        return j2b(sp['data'])
    raise ValueError(sp)


# ------------------------------------------------------------------------------- faults

def apply_fault(fault, data, payload=None):
    """Returns (bytes to emit, after) with after in (None, 'close', 'stall').
    `data` is what would be emitted (a framed packet or a banner line); `payload` is the packet
    payload when the message is a packet (so payload-level faults can re-frame)."""
    if fault is None:
        return data, None
    if fault == 'close':
        return b'', 'close'
    if fault == 'stall':
        return b'', 'stall'
    if fault == 'reset':
        return b'', 'reset'
    k = fault[0]
    if k == 'trunc':
        return data[:fault[1]], fault[2]
    if k == 'raw':
        after = fault[2] if len(fault) > 2 else None
        return j2b(fault[1]), after
    if k == 'xor':
        d = bytearray(data)
        if fault[1] < len(d):
            d[fault[1]] ^= fault[2]
        return bytes(d), None
    if k == 'set_len':
        return struct.pack('>I', fault[1] & 0xffffffff) + data[4:], None
    if k == 'set_pad':
        return data[:4] + bytes([fault[1] & 0xff]) + data[5:], None
    if k == 'dup':
        return data + data, None
    if k == 'disconnect':
        # SSH_MSG_DISCONNECT with a reason code (RFC 4253 11.1) in place of the message, then the connection is gone
        d = b'\x01' + struct.pack('>I', fault[1] & 0xffffffff) + wire.sstr(b'go away') + wire.sstr(b'')
        return wire.pkt(d), 'close'
    if k == 'debug':
        dbg = wire.pkt(b'\x04\x00' + wire.sstr(b'debug message') + wire.sstr(b''))
        return dbg * fault[1] + data, None
    if k == 'append':
        return data + j2b(fault[1]), (fault[2] if len(fault) > 2 else None)
    if payload is not None:
        if k == 'reframe_trunc':
            return wire.pkt(payload[:fault[1]]), None
        if k == 'set_u32':
            p = bytearray(payload)
            off = fault[1]
            if off + 4 <= len(p):
                p[off:off + 4] = struct.pack('>I', fault[2] & 0xffffffff)
            return wire.pkt(bytes(p)), None
        if k == 'type':
            return wire.pkt(bytes([fault[1] & 0xff]) + payload[1:]), None
        if k == 'payload':
            return wire.pkt(j2b(fault[1])), None
        if k == 'pad_legal':
            # the legal padding length closest above the wanted one (RFC 4253 6: 4..255 bytes, total a multiple of 8)
            want = fault[1]
            pad = next(q for q in list(range(want, 256)) + list(range(want, 3, -1)) if (len(payload) + 5 + q) % 8 == 0)
            return wire.pkt(payload, pad=pad), None
        if k == 'pad':
            return wire.pkt(payload, pad=fault[1]), None
    if k.startswith('ssh1_'):
        # SSH-1 packet rebuilt with a valid checksum around a changed type / body
        t, body = wire.ssh1_parse_packet(data)
        if k == 'ssh1_trunc':
            return wire.ssh1_packet(t, body[:fault[1]]), None
        if k == 'ssh1_type':
            return wire.ssh1_packet(fault[1] & 0xff, body), None
        if k == 'ssh1_set_u16':
            b = bytearray(body)
            if fault[1] + 2 <= len(b):
                b[fault[1]:fault[1] + 2] = struct.pack('>H', fault[2] & 0xffff)
            return wire.ssh1_packet(t, bytes(b)), None
        if k == 'ssh1_set_u32':
            b = bytearray(body)
            if fault[1] + 4 <= len(b):
                b[fault[1]:fault[1] + 4] = struct.pack('>I', fault[2] & 0xffffffff)
            return wire.ssh1_packet(t, bytes(b)), None
        if k == 'ssh1_append':
            return wire.ssh1_packet(t, body + j2b(fault[1])), None
        if k == 'ssh1_body':
            return wire.ssh1_packet(t, j2b(fault[1])), None
    raise ValueError('unknown fault %r' % (fault,))


# ------------------------------------------------------------------------------- scripted peers

class Server:
    """Reactive scripted SSH-2 peer (server, or client in -c audits).  See spec_defaults()."""

    @staticmethod
    def spec_defaults():
        return {
            'proto': 2,
            'banner': 'SSH-2.0-OpenSSH_8.0',
            'eol': '\r\n',
            'pre': '',
            'kex': ['curve25519-sha256'], 'key': ['ssh-ed25519'], 'enc': ['aes128-ctr'], 'mac': ['hmac-sha2-256'],
            'comp': ['none'], 'enc_c': None, 'mac_c': None, 'comp_c': None, 'lang': [''],
            'kexinit_raw': None,       # latin-1 payload overriding the lists
            'hostkeys': {},            # keytype -> blob spec
            'moduli': [], 'gex_style': 'strict',
            'moduli_by_alg': None,
            'gex_style_by_alg': None,  # optional: gex algorithm name -> selection style (overrides 'gex_style' for that algorithm)     # optional: gex algorithm name -> moduli (overrides 'moduli' for that algorithm)
            'kexinit_pad': None,       # padding length of the KEXINIT packet (None = minimal)
            'faults': [],              # [what, conn_idx | '*', fault]
            'reply_delay': None,       # seconds slept before every send (engine B only)
            'probe_faults': None,      # {host-key name asked for by the client: fault applied to that KEXDH reply}
            'rate': 'normal',          # behaviour towards non-blocking (rate-test) connections
            'latency': False,          # True: everything the peer sends arrives only after the client has started waiting for it (a scheduling point under vlib.sched)
            'chatter_text': None,      # text of those debug messages (latin-1 string of the UTF-8 bytes)
            'chatter': None,           # {message kind: n}: n SSH_MSG_DEBUG packets in front of every message of that kind (legal at any time, RFC 4253 11.3)
            'check_e': True,           # validate the client's public DH value against the group in use, as servers do (0 < e < p), and disconnect otherwise
        }

    def __init__(self, spec=None, **kw):
        s = self.spec_defaults()
        s.update(spec or {})
        s.update(kw)
        self.spec = s
        self.banner = j2b(s['banner'])
        self.eol = j2b(s['eol'])
        self.pre = j2b(s['pre'])
        if s['kexinit_raw'] is not None:
            self.kexinit = j2b(s['kexinit_raw'])
        else:
            L = lambda l: None if l is None else [j2b(x) for x in l]
            self.kexinit = wire.kexinit(L(s['kex']), L(s['key']), L(s['enc']), L(s['mac']), L(s['comp']), L(s['lang']), enc_c=L(s['enc_c']), mac_c=L(s['mac_c']), comp_c=L(s['comp_c']))
        self.hostkeys = {k: blob_from_spec(v) for k, v in s['hostkeys'].items()}
        self.moduli = list(s['moduli'])
        self.gex_style = s['gex_style']
        self.faults = {}
        for what, idx, f in s['faults']:
            self.faults[(what, idx)] = f
        self.rate = s['rate']
        self.log = []            # (conn idx, event, detail)
        self.nconn = 0
        self.conns = []
        self.framing_problems = []
        self.lock = threading.Lock()

    def accept(self, nonblocking=False):
        with self.lock:
            idx = self.nconn
            self.nconn += 1
        self.check_refusal(idx, nonblocking)
        c = Conn(self, idx, nonblocking)
        self.conns.append(c)
        return c

    def check_refusal(self, idx, nonblocking=False):
        self.cur_rate = self.rate
        if nonblocking and self.rate.startswith('mixed:'):
            # 'mixed:<k>:<behaviour>': every k-th rate-check connection is answered normally, the others get <behaviour>
            _, k, other = self.rate.split(':', 2)
            self.nb_seen = getattr(self, 'nb_seen', 0) + 1
            self.cur_rate = 'normal' if self.nb_seen % int(k) == 0 else other
        if nonblocking and self.cur_rate == 'refuse':
            self.log.append((idx, 'refused', None))
            raise ConnectionRefusedError(errno.ECONNREFUSED, 'Connection refused')
        f = self.fault_for('connect', idx)
        if f == 'refuse':
            self.log.append((idx, 'refused', None))
            raise ConnectionRefusedError(errno.ECONNREFUSED, 'Connection refused')
        if f == 'timeout':
            self.log.append((idx, 'connect-timeout', None))
            raise socket.timeout('timed out')

    def fault_for(self, what, idx):
        f = self.faults.get((what, idx))
        if f is None:
            # 'N+': every connection from index N on (a server that serves the first N connections of a client only)
            for (w, i), g in self.faults.items():
                if w == what and isinstance(i, str) and i.endswith('+') and idx >= int(i[:-1]):
                    return g
            f = self.faults.get((what, '*'))
        return f

    def choose_modulus(self, mn, pref, mx, alg=None):
        by = self.spec.get('moduli_by_alg') or {}
        ms = sorted(by[alg]) if alg in by else sorted(self.moduli)
        style = (self.spec.get('gex_style_by_alg') or {}).get(alg, self.gex_style)
        if style == 'strict':
            cand = [m for m in ms if mn <= m <= mx]
            if not cand:
                return None
            ge = [m for m in cand if m >= pref]
            return ge[0] if ge else cand[-1]
        if style == 'roundup':
            cand = [m for m in ms if m >= mn]
            return cand[0] if cand else (ms[-1] if ms else None)
        if style == 'prefup':
            # smallest group not below the preferred size, whatever the maximum says (largest one if there is none)
            cand = [m for m in ms if m >= pref]
            return cand[0] if cand else (ms[-1] if ms else None)
        if style == 'openssh':
            mn2, mx2, pref2 = max(mn, 2048), min(mx, 8192), min(max(pref, 2048), 8192)
            if mx2 < mn2 or pref2 < mn2 or mx2 < pref2:
                return None
            cand = [m for m in ms if mn2 <= m <= mx2]
            if not cand:
                return 2048
            ge = [m for m in cand if m >= pref2]
            return ge[0] if ge else cand[-1]
        raise ValueError(style)


class Conn:
    """One accepted connection of a scripted peer."""

    def __init__(self, server, idx, nonblocking=False):
        self.server = server
        self.idx = idx
        self.out = bytearray()
        self.deferred = bytearray()    # bytes sent by a peer with 'latency' that have not arrived yet
        self.inbuf = bytearray()
        self.closed_by_server = False
        self.closed_by_client = False
        self.stalled = False
        self.reset = False
        self.got_banner = False
        self.client_banner = None
        self.client_msgs = []          # payloads received
        self.emitted = []              # (what, bytes) actually emitted
        self.nonblocking = nonblocking
        self.ckex, self.ckey = [], []
        self.kex_exchanges = 0         # number of KEXDH_INIT / GEX_REQUEST seen
        self.bytes_from_client = 0
        server.log.append((idx, 'accept', {'nonblocking': nonblocking}))
        r = getattr(server, 'cur_rate', server.rate)      # set by check_refusal() for this very connection
        if nonblocking and r != 'normal':
            if r == 'close':
                self.closed_by_server = True
            elif r == 'reset':
                self.closed_by_server = True
                self.reset = True
            elif r == 'stall':
                self.stalled = True
            elif r.startswith('greet:'):
                self.out += j2b(r[6:])
                self.closed_by_server = True
            elif r.startswith('paced:'):
                # a throttling server: the banner leaves only so many (virtual) milliseconds after the connection arrived
                self.ready_at = _CUR[0].clock + int(r[6:]) / 1000.0
                self.start()
            return
        f = server.fault_for('connect', idx)
        if f == 'close':
            self.closed_by_server = True
            return
        if f == 'stall':
            self.stalled = True
            return
        self.start()

    def start(self):
        s = self.server
        self.emit('banner', s.pre + s.banner + s.eol)
        if s.spec['proto'] == 2:
            self.emit('kexinit', wire.pkt(s.kexinit, pad=s.spec.get('kexinit_pad')), s.kexinit)

    def emit(self, what, data, payload=None, fault_override=None):
        if self.closed_by_server or self.stalled:
            return
        f = fault_override if fault_override is not None else self.server.fault_for(what, self.idx)
        data, after = apply_fault(f, data, payload)
        n_dbg = (self.server.spec.get('chatter') or {}).get(what, 0)
        if n_dbg and data and payload is not None:
            text = j2b(self.server.spec.get('chatter_text') or '') or b'chatter before %s' % what.encode()      # (RFC 4253 11.3: the message is ISO-10646 UTF-8)
            data = wire.pkt(b'\x04\x01' + wire.sstr(text) + wire.sstr(b'en')) * n_dbg + data
        if data:
            if self.server.spec.get('latency') and not self.nonblocking:
                self.deferred += data       # on its way: there once the client has waited for it
            else:
                self.out += data
            self.emitted.append((what, bytes(data)))
        if f is not None:
            self.server.log.append((self.idx, 'fault', [what, f]))
        if after == 'close':
            self.closed_by_server = True
        elif after == 'stall':
            self.stalled = True
        elif after == 'reset':
            self.closed_by_server = True
            self.reset = True

    def client_send(self, data):
        self.bytes_from_client += len(data)
        self.inbuf += data
        if not self.got_banner:
            i = self.inbuf.find(b'\n')
            if i < 0:
                return
            self.client_banner = bytes(self.inbuf[:i + 1])
            self.server.log.append((self.idx, 'client_banner', b2j(self.client_banner)))
            del self.inbuf[:i + 1]
            self.got_banner = True
            self.on_client_banner()
        if self.server.spec['proto'] != 2:
            return
        raws, rest = wire.split_packets(bytes(self.inbuf))
        self.inbuf = bytearray(rest)
        for raw in raws:
            payload, problems = wire.check_packet_framing(raw)
            if problems:
                self.server.framing_problems.append((self.idx, problems, b2j(raw[:64])))
            if payload is None or len(payload) == 0:
                continue
            self.client_msgs.append(payload)
            self.server.log.append((self.idx, 'msg', payload[0]))
            self.on_msg(payload)

    def on_client_banner(self):
        pass

    def on_msg(self, payload):
        t = payload[0]
        srv = self.server
        if t == 20:
            try:
                k = wire.parse_kexinit(payload)
                self.ckex = [x.decode('latin-1') for x in k['kex']]
                self.ckey = [x.decode('latin-1') for x in k['key']]
            except ValueError:
                srv.framing_problems.append((self.idx, ['client KEXINIT does not parse'], b2j(payload[:64])))
        elif t == 30:   # KEXDH_INIT
            self.kex_exchanges += 1
            srv.log.append((self.idx, 'kexdh_init', None))
            if srv.spec.get('check_e') and not self.valid_dh_value(payload, None):
                return
            blob = self.pick_hostkey()
            if blob is None:
                self.closed_by_server = True
                return
            p = wire.kexdh_reply(blob)
            # 'probe_faults': {host-key name the client asked for: fault} - a fault tied to one probed key type
            pf = (srv.spec.get('probe_faults') or {}).get(self.ckey[0] if self.ckey else None)
            self.emit('kexdh_reply', wire.pkt(p), p, fault_override=pf)
        elif t == 34:   # GEX_REQUEST
            self.kex_exchanges += 1
            if len(payload) < 13:
                self.closed_by_server = True
                return
            mn, pref, mx = struct.unpack('>III', payload[1:13])
            srv.log.append((self.idx, 'gex_request', [mn, pref, mx]))
            m = srv.choose_modulus(mn, pref, mx, self.ckex[0] if self.ckex else None)
            if m is None:
                self.closed_by_server = True
                return
            srv.log.append((self.idx, 'gex_group', m))
            self.gex_p = wire.rsa_modulus(m)
            p = wire.gex_group(wire.rsa_modulus(m))
            self.emit('gex_group', wire.pkt(p), p)
        elif t == 32:   # GEX_INIT
            srv.log.append((self.idx, 'gex_init', None))
            if srv.spec.get('check_e') and not self.valid_dh_value(payload, getattr(self, 'gex_p', None)):
                return
            blob = self.pick_hostkey()
            if blob is None:
                blob = wire.ed25519_blob()
            p = wire.kexdh_reply(blob, msg=33)
            self.emit('gex_reply', wire.pkt(p), p)

    FIXED_GROUP_BITS = {'diffie-hellman-group1-sha1': 1024, 'diffie-hellman-group14-sha1': 2048, 'diffie-hellman-group14-sha256': 2048, 'diffie-hellman-group16-sha512': 4096, 'diffie-hellman-group18-sha512': 8192}

    def valid_dh_value(self, payload, p):
        """What a real server does with the client's public value: it must lie inside the group in use (for the fixed
        groups the bound is taken as 2^bits), otherwise SSH_MSG_DISCONNECT and the connection is gone."""
        kex = self.ckex[0] if self.ckex else ''
        ok = True
        try:
            if p is not None or kex in self.FIXED_GROUP_BITS:
                n = struct.unpack('>I', payload[1:5])[0]
                body = payload[5:5 + n]
                if len(body) != n or n == 0 or (body[0] & 0x80):
                    ok = False
                else:
                    e = int.from_bytes(body, 'big')
                    # (the scripted groups are not safe primes, so 1 and p-1 do turn up as honest values; they are let through)
                    ok = 0 < e < (p if p is not None else (1 << self.FIXED_GROUP_BITS[kex]))
        except (struct.error, IndexError):
            ok = False
        if not ok:
            self.server.log.append((self.idx, 'bad-dh-value', None))
            d = b'\x01' + struct.pack('>I', 3) + wire.sstr(b'bad client public DH value') + wire.sstr(b'')
            self.emit('disconnect', wire.pkt(d), d)
            self.closed_by_server = True
        return ok

    def pick_hostkey(self):
        for k in self.ckey:
            if k in self.server.hostkeys:
                return self.server.hostkeys[k]
        return None


class Ssh1Server(Server):
    """SSH-1 server: banner, then SSH_SMSG_PUBLIC_KEY after the client's banner (or the OpenSSH
    'Protocol major versions differ.' line when the client announced SSH-2)."""

    def __init__(self, spec=None, **kw):
        d = {'proto': 1, 'banner': 'SSH-1.5-OpenSSH_3.0', 'eol': '\n', 'cmask': 0x48, 'amask': 0x0c, 'skey_bits': 768, 'hkey_bits': 1024, 'bad_crc': False, 'pkm_raw': None, 'always_differ': False}
        d.update(spec or {})
        d.update(kw)
        super().__init__(d)

    def accept(self, nonblocking=False):
        with self.lock:
            idx = self.nconn
            self.nconn += 1
        self.check_refusal(idx, nonblocking)
        c = Ssh1Conn(self, idx, nonblocking)
        self.conns.append(c)
        return c


class Ssh1Conn(Conn):
    def on_client_banner(self):
        s = self.server.spec
        if self.client_banner.startswith(b'SSH-2') or s.get('always_differ'):
            self.emit('differ', b'Protocol major versions differ.\n')
            self.closed_by_server = True
            return
        if s['pkm_raw'] is not None:
            body = j2b(s['pkm_raw'])
        else:
            body = wire.ssh1_pkm_payload(s['cmask'], s['amask'], s['skey_bits'], s['hkey_bits'])
        self.emit('pkm', wire.ssh1_packet(2, body, bad_crc=s['bad_crc']), None)


def peer_from_spec(spec):
    if spec.get('proto', 2) == 1:
        return Ssh1Server(spec)
    return Server(spec)


# ------------------------------------------------------------------------------- sockets

_CUR = [None]


class VSocket:

    def __init__(self, family=socket.AF_INET, type=socket.SOCK_STREAM, proto=0, fileno=None):
        net = _CUR[0]
        self._net = net
        self.family = family
        self.conn = None
        self.timeout = None
        self.closed = False
        self.pending_error = None
        self.listening = False
        self.rec = {'id': len(net.sockrecs), 'family': int(family), 'addr': None, 'connected': False, 'closed': False, 'shutdown': False, 'gc': False, 'sent': 0, 'nonblocking': False, 'listening': False, 'thread': threading.get_ident()}
        net.sockrecs.append(self.rec)
        net.open_now += 1
        net.max_open = max(net.max_open, net.open_now)

    def __del__(self):
        try:
            if not self.closed:
                self.rec['gc'] = True
                self._net.open_now -= 1
        except Exception:
            pass

    def _op(self):
        # any socket call at all: a loop that keeps shutting down / closing / dialling without ever waiting costs no virtual time
        net = self._net
        net.sock_ops += 1
        if net.sock_ops > net.max_sock_ops:
            raise HarnessHang('more than %d socket calls in one run: the program spins on its sockets' % net.max_sock_ops)

    def settimeout(self, t):
        self.timeout = t

    def setblocking(self, b):
        self._op()
        self.timeout = None if b else 0.0
        self.rec['nonblocking'] = not b

    def setsockopt(self, *a):
        pass

    def _lookup(self, addr):
        net = self._net
        if net.gate is not None:
            net.gate.connection_point()
        if isinstance(addr[0], str) and '%' in addr[0] and len(addr) == 2:
            # a numeric zone in the host string of a 2-tuple is what the real socket layer turns into the scope id
            ip, _, zone = addr[0].partition('%')
            addr = (ip, addr[1], 0, int(zone) if zone.isdigit() else -1)
        self.rec['addr'] = [addr[0], addr[1]]
        net.connects.append((self.rec['id'], int(self.family), addr[0], addr[1], bool(self.rec['nonblocking'])))
        net.connect_addrs.append(tuple(addr))          # the socket address exactly as the program passed it
        return net.servers.get((addr[0], addr[1]))

    def connect(self, addr):
        net = self._net
        srv = self._lookup(addr)
        if srv is None:
            raise ConnectionRefusedError(errno.ECONNREFUSED, 'Connection refused')
        if srv == 'timeout':
            net.advance(self.timeout or 0)
            raise socket.timeout('timed out')
        self.conn = srv.accept(False)
        self.rec['connected'] = True

    def connect_ex(self, addr):
        self._op()
        # Non-blocking semantics: a real stack answers EINPROGRESS and reports failure later.
        if self.timeout == 0.0:
            srv = self._lookup(addr)
            if srv is None:
                self.pending_error = ConnectionRefusedError(errno.ECONNREFUSED, 'Connection refused')
            elif srv == 'timeout':
                self.pending_error = 'never'
            else:
                try:
                    self.conn = srv.accept(True)
                    self.rec['connected'] = True
                except OSError as e:
                    self.pending_error = type(e)(*e.args)      # a fresh exception without traceback (no reference cycle through this frame)
            return errno.EINPROGRESS
        try:
            self.connect(addr)
            return 0
        except OSError as e:
            return e.errno or errno.ECONNREFUSED

    def recv(self, n, flags=0):
        net = self._net
        net.recv_calls += 1
        if net.recv_calls > net.max_recv_calls:
            raise HarnessHang('more than %d recv() calls in one run: the program keeps reading' % net.max_recv_calls)
        if self.closed:
            raise OSError(errno.EBADF, 'Bad file descriptor')
        if self.pending_error is not None and self.pending_error != 'never':
            e, self.pending_error = self.pending_error, None
            try:
                raise e
            finally:
                del e           # no frame -> exception -> traceback -> frame cycle: the socket must die with its last reference, as a real one does
        c = self.conn
        if c is None:
            raise OSError(errno.ENOTCONN, 'Transport endpoint is not connected')
        if len(c.out) == 0 and len(c.deferred) > 0:
            # network latency: the answer is not there when the program first looks; other workers run in the meantime
            if net.gate is not None:
                net.gate.connection_point()
            c.out += c.deferred
            del c.deferred[:]
        if len(c.out) > 0 and net.eagain_every and self.timeout != 0.0:
            # a spurious wake-up: the read reports EAGAIN although data is on its way (the program is expected to try again)
            net.eagain_count += 1
            if net.eagain_count % net.eagain_every == 0:
                raise BlockingIOError(errno.EAGAIN, 'Resource temporarily unavailable')
        if len(c.out) > 0:
            seg = net.segment
            k = min(n, len(c.out), seg) if seg else min(n, len(c.out))
            d = bytes(c.out[:k])
            del c.out[:k]
            return d
        if c.closed_by_server:
            if c.reset:
                raise ConnectionResetError(errno.ECONNRESET, 'Connection reset by peer')
            return b''
        if self.timeout == 0.0:
            raise BlockingIOError(errno.EAGAIN, 'Resource temporarily unavailable')
        if net.gate is not None:
            net.gate.connection_point()      # a read that blocks lets the other workers run before it times out
        net.advance(self.timeout or 0)
        net.stalls += 1
        net.stall_log.append(self.rec['id'])
        if net.stalls > net.max_stalls:
            raise HarnessHang('more than %d read timeouts in one run: the program keeps waiting' % net.max_stalls)
        if self.timeout is None:
            # a blocking socket with no timeout would hang for ever: surface it as a hang
            raise HarnessHang('recv() on a blocking socket without timeout would never return')
        raise socket.timeout('timed out')

    def send(self, data):
        self._op()
        if self.closed:
            raise OSError(errno.EBADF, 'Bad file descriptor')
        c = self.conn
        if c is None:
            raise BrokenPipeError(errno.EPIPE, 'Broken pipe')
        self.rec['sent'] += len(data)
        if c.closed_by_server:
            # the first write after the peer closed succeeds at TCP level
            return len(data)
        c.client_send(bytes(data))
        return len(data)

    def sendall(self, data):
        self.send(data)

    def shutdown(self, how):
        self._op()
        if self.closed:
            raise OSError(errno.EBADF, 'Bad file descriptor')
        if self.conn is None:
            raise OSError(errno.ENOTCONN, 'Transport endpoint is not connected')
        self.rec['shutdown'] = True
        self.conn.closed_by_client = True
        self.conn.server.log.append((self.conn.idx, 'client_shutdown', None))

    def close(self):
        self._op()
        if not self.closed:
            self._net.open_now -= 1
        self.closed = True
        self.rec['closed'] = True
        if self.conn is not None:
            self.conn.closed_by_client = True

    def fileno(self):
        self._op()
        net = self._net
        if self.closed:
            return -1
        with net.lock:
            if self not in net.fd_of:
                net.fd_seq += 1
                net.fd_of[self] = 1000 + net.fd_seq
                net.sock_of[net.fd_of[self]] = self
        return net.fd_of[self]

    def bind(self, addr):
        self._net.binds.append((int(self.family), addr[0], addr[1]))

    def listen(self, backlog=0):
        self.listening = True
        self.rec['listening'] = True

    def accept(self):
        net = self._net
        peer = net.pending_clients.pop(0)
        c = VSocket(self.family)
        c.conn = peer.accept(False)
        c.rec['connected'] = True
        c.rec['accepted'] = True
        return c, (net.client_addr, 54321)

    def getpeername(self):
        return tuple(self.rec['addr'] or ('0.0.0.0', 0))


def _fast_pow(g, x, p=None):
    if p is None:
        return builtins.pow(g, x)
    return builtins.pow(g, (x & 0xffffffff) | 0x100000000, p)


class HarnessHang(BaseException):
    """Raised by the fake network where the real program would block for ever."""


class _Clock:
    def __init__(self, net):
        self.net = net

    def time(self):
        with self.net.lock:
            self.net.clock += self.net.quantum
            self.net.time_calls += 1
            if self.net.time_calls > self.net.max_time_calls:
                raise HarnessHang('more than %d clock reads in one run' % self.net.max_time_calls)
            return 1.7e9 + self.net.clock

    def sleep(self, s):
        self.net.advance(s)

    def __getattr__(self, name):
        import time as _t
        return getattr(_t, name)


class FakeNet:
    def __init__(self, segment=0, quantum=0.002, client_addr='192.0.2.7', eagain_every=0):
        self.eagain_every = eagain_every      # every n-th read that has data waiting reports EAGAIN first
        self.eagain_count = 0
        self.servers = {}          # (ip, port) -> peer | 'timeout'
        self.resolve = {}          # host -> [(af, ip)] | ('error', errno, msg)
        self.connects = []         # (sock id, family, ip, port, nonblocking)
        self.sockrecs = []
        self.open_now = 0
        self.max_open = 0
        self.clock = 0.0
        self.quantum = quantum
        self.time_calls = 0
        self.max_time_calls = 2_000_000
        self.stalls = 0
        self.max_stalls = 2000
        self.recv_calls = 0
        self.max_recv_calls = 300000
        self.stall_log = []
        self.segment = segment
        self.gai_calls = []
        self.fd_of = weakref.WeakKeyDictionary()      # weak: a socket the program drops is reclaimed (and thereby closed) as in a real process
        self.sock_of = weakref.WeakValueDictionary()
        self.binds = []
        self.fd_seq = 0
        self.pending_clients = []
        self.client_addr = client_addr
        self.lock = threading.RLock()
        self.select_calls = 0
        self.connect_addrs = []
        self.transient_failures = {}   # host -> number of lookups that fail with EAI_AGAIN before the resolver answers
        self.scopes = {}           # IPv6 address -> scope id the resolver reports for it (link-local addresses)
        self.sock_ops = 0
        self.max_sock_ops = 500_000
        self.gate = None           # vlib.sched.Scheduler when the harness owns the interleaving

    def advance(self, s):
        with self.lock:
            self.clock += s

    def add(self, host, port, server, ips=None):
        ips = ips or [(int(socket.AF_INET), '10.0.0.%d' % (len(self.resolve) + 1))]
        self.resolve[host] = [(int(a), i) for a, i in ips]
        for _, ip in ips:
            self.servers[(ip, port)] = server

    def getaddrinfo(self, host, port, family=0, type=0, proto=0, flags=0):
        self.gai_calls.append((host, port, int(family)))
        if self.transient_failures.get(host, 0) > 0:
            # a resolver that is briefly unavailable (EAI_AGAIN), then answers
            self.transient_failures[host] -= 1
            raise socket.gaierror(socket.EAI_AGAIN, 'Temporary failure in name resolution')
        r = self.resolve.get(host)
        if r is None:
            # literal addresses resolve to themselves, as the real resolver does
            import ipaddress
            try:
                ip = ipaddress.ip_address(host)
                r = [(int(socket.AF_INET6 if ip.version == 6 else socket.AF_INET), host)]
            except ValueError:
                if isinstance(host, str) and any(l == '' or len(l) > 63 for l in host.rstrip('.').split('.')):
                    # what CPython's idna codec does to such a name before the resolver sees it
                    raise UnicodeError('label empty or too long')
                raise socket.gaierror(-2, 'Name or service not known')
        res = []
        for af, ip in r:
            if family in (0, af):
                addr = (ip, port) if af == socket.AF_INET else (ip, port, 0, self.scopes.get(ip, 0))
                res.append((socket.AddressFamily(af), socket.SOCK_STREAM, 6, '', addr))
        if not res:
            raise socket.gaierror(-5, 'No address associated with hostname')
        return res

    def select(self, r, w, x, timeout=None):
        self.select_calls += 1
        if self.select_calls > 1_000_000:
            raise HarnessHang('more than 10^6 select() calls in one run')
        rs = [self.sock_of.get(s, s) if isinstance(s, int) else s for s in r]
        rr = []
        for orig, s in zip(r, rs):
            if not isinstance(s, VSocket):
                continue
            if s.listening:
                if self.pending_clients and s.family == socket.AF_INET:
                    rr.append(orig)
            elif s.pending_error is not None and s.pending_error != 'never':
                rr.append(orig)
            elif s.conn is not None and (len(s.conn.out) > 0 or s.conn.closed_by_server) and getattr(s.conn, 'ready_at', 0) <= self.clock:
                rr.append(orig)
        if not rr:
            # data that is on its way arrives when it is due, not at the end of the waiting time (as with a real select)
            due = [s.conn.ready_at for s in rs if isinstance(s, VSocket) and s.conn is not None and getattr(s.conn, 'ready_at', 0) > self.clock and (len(s.conn.out) > 0 or s.conn.closed_by_server)]
            if due and min(due) - self.clock <= (timeout or 0):
                self.advance(min(due) - self.clock)
                rr = [orig for orig, s in zip(r, rs) if isinstance(s, VSocket) and s.conn is not None and (len(s.conn.out) > 0 or s.conn.closed_by_server) and getattr(s.conn, 'ready_at', 0) <= self.clock]
            else:
                self.advance(timeout or 0)
        return rr, [], []

    @contextlib.contextmanager
    def installed(self):
        import ssh_audit.dheat as dheat
        import ssh_audit.kexdh as kexdh
        _CUR[0] = self
        old_time = dheat.time
        # The value of the tool's DH public key e = g^x mod p is irrelevant to the scripted peers; a full-size
        # modular exponentiation per probe connection dominates run time, so inside engine A the exponent is
        # shortened (engine B runs the real arithmetic).  VERIF_REAL_POW=1 disables the shortcut.
        if not os.environ.get('VERIF_REAL_POW'):
            kexdh.pow = _fast_pow
        socket.socket = VSocket
        socket.getaddrinfo = self.getaddrinfo
        select.select = self.select
        dheat.time = _Clock(self)
        try:
            yield self
        finally:
            socket.socket = _real_socket
            socket.getaddrinfo = _real_getaddrinfo
            select.select = _real_select
            dheat.time = old_time
            if 'pow' in kexdh.__dict__:
                del kexdh.pow

"""Synthesise a scripted peer that is configured exactly as a built-in policy lists."""

RSA_FAMILY = ('ssh-rsa', 'rsa-sha2-256', 'rsa-sha2-512')


def blob_spec_for(key_type, size_info):
    """Blob spec for a host-key type with the sizes a policy lists for it."""
    hs = int(size_info.get('hostkey_size', 0) or 0) if size_info else 0
    ca_t = (size_info or {}).get('ca_key_type', '') or ''
    ca_s = int((size_info or {}).get('ca_key_size', 0) or 0)
    if '-cert-' in key_type:
        if ca_t in ('ssh-rsa', 'rsa-sha2-256', 'rsa-sha2-512'):
            ca = {'t': 'rsa', 'bits': ca_s or 4096}
        elif ca_t.startswith('ecdsa-sha2-'):
            ca = {'t': 'ecdsa', 'curve': ca_t[len('ecdsa-sha2-'):]}
        else:
            ca = {'t': 'ed25519'}
        if 'rsa' in key_type:
            return {'t': 'cert', 'kind': 'ssh-rsa-cert-v01@openssh.com', 'bits': hs or 4096, 'ca': ca}
        if key_type.startswith('ssh-ed25519'):
            return {'t': 'cert', 'kind': 'ssh-ed25519-cert-v01@openssh.com', 'ca': ca}
        if key_type.startswith(('sk-ssh-ed25519', 'sk-ecdsa-sha2-nistp256', 'ecdsa-sha2-nistp', 'ssh-dss')):
            return {'t': 'cert', 'kind': key_type, 'ca': ca}      # every key kind a policy may list gets a well-formed blob of its own kind
        return None
    if key_type in RSA_FAMILY:
        return {'t': 'rsa', 'bits': hs or 4096}
    if key_type == 'ssh-ed25519':
        return {'t': 'ed25519'}
    if key_type == 'ssh-ed448':
        return {'t': 'ed448'}
    if key_type.startswith('ecdsa-sha2-nistp'):
        return {'t': 'ecdsa', 'curve': key_type[len('ecdsa-sha2-'):]}
    if key_type == 'ssh-dss':
        return {'t': 'dss'}
    if key_type == 'sk-ssh-ed25519@openssh.com':
        return {'t': 'sk-ed25519'}
    if key_type == 'sk-ecdsa-sha2-nistp256@openssh.com':
        return {'t': 'sk-ecdsa'}
    return None


def spec_from_policy(pol, optional=(), banner='SSH-2.0-OpenSSH_9.9'):
    """pol: a BUILTIN_POLICIES value.  optional: optional host keys to advertise in addition,
    inserted after the required ones is not allowed by exact matching, so they are appended where the
    policy's pruning makes their position irrelevant."""
    keys = list(pol['host_keys'] or []) + [k for k in optional]
    hostkeys = {}
    sizes = pol.get('hostkey_sizes') or {}
    for k in keys:
        sp = blob_spec_for(k, sizes.get(k))
        if sp is not None:
            hostkeys[k] = sp
    spec = {'banner': banner, 'kex': list(pol['kex'] or []), 'key': keys, 'enc': list(pol['ciphers'] or []), 'mac': list(pol['macs'] or []), 'hostkeys': hostkeys}
    dh = pol.get('dh_modulus_sizes') or {}
    if dh:
        spec['moduli'] = sorted(set(int(v) for v in dh.values()))
        spec['gex_style'] = 'strict'
    return spec

"""Runner shared by all checks: seed/tier, process pool, Hypothesis-driven generation in shards,
case classification counters, failure buckets by root-cause signature, shrinking, replay files,
known-finding matching and the evidence file."""
import collections
import hashlib
import importlib
import json
import multiprocessing
import os
import random
import sys
import time
import traceback

from . import cov

VERIF = os.path.dirname(os.path.dirname(os.path.abspath(__file__)))
NPROC = int(os.environ.get('VERIF_NPROC', '16'))
OUT = os.environ.get('VERIF_OUT') or VERIF   # evidence/ and replays/ go here (redirected by the self-test)


def canon(obj):
    return json.dumps(obj, sort_keys=True, default=str, ensure_ascii=True)


def case_hash(obj):
    return hashlib.sha1(canon(obj).encode()).hexdigest()[:16]


def tool_exception_sig(e):
    """Signature for an exception raised *by the code under test* (innermost frame inside ssh_audit);
    returns None when the exception comes from the harness itself."""
    tb = traceback.extract_tb(e.__traceback__)
    if tb and '/ssh_audit/' in tb[-1].filename:
        return 'tool-raised:%s@%s' % (type(e).__name__, tb[-1].name)
    fr = [f for f in tb if '/ssh_audit/' in f.filename]
    if fr and not any('/verif/' in f.filename for f in tb[tb.index(fr[-1]) + 1:]):
        return 'tool-raised:%s@%s' % (type(e).__name__, fr[-1].name)
    return None


def mkres(case, key=None, nt=False, classes=(), fails=(), info=None):
    """Result of evaluating one case.  fails: list of [signature, detail]."""
    return {'case': case, 'key': key if key is not None else case_hash(case), 'nt': bool(nt), 'classes': list(classes), 'fails': [list(f) for f in fails], 'info': info}


# ----------------------------------------------------------------------------- worker entry points

def _inconclusive():
    from . import drive
    return drive.Inconclusive


def _eval_batch(args):
    modname, cases = args
    cov.start()
    mod = importlib.import_module(modname)
    out = []
    for c in cases:
        try:
            out.append(mod.eval_case(c))
        except _inconclusive():
            out.append(mkres(c, nt=False, classes=['wall-clock-budget-hit-inconclusive']))
        except Exception as e:
            out.append(_exc_result(c, e))
    cov.dump()
    return out


def _exc_result(c, e):
    """An exception escaping from eval_case: raised by the code under test (innermost frame inside ssh_audit, reached
    from a direct call of the check) it is a failure of that case - the checks catch the exceptions a function is
    documented to raise themselves -; anything else is an error of the harness."""
    sig = tool_exception_sig(e)
    if sig is not None:
        tail = ''.join(traceback.format_exception_only(type(e), e)).strip()[:300]
        return {'case': c, 'key': case_hash(c), 'nt': True, 'classes': ['tool-raised'], 'fails': [[sig, tail]], 'info': None}
    return {'case': c, 'key': case_hash(c), 'nt': False, 'classes': ['harness-error'], 'fails': [], 'info': None, 'harness_error': traceback.format_exc()}


def _hyp_shard(args):
    """Generate n cases from mod.<strategy_name>() with Hypothesis (seeded) and evaluate each."""
    modname, strategy_name, shard_seed, n, stratargs = args
    import hypothesis
    from hypothesis import given, settings, HealthCheck, Phase
    cov.start()
    mod = importlib.import_module(modname)
    strat = getattr(mod, strategy_name)(*stratargs)
    out = []

    @hypothesis.seed(shard_seed)
    @settings(max_examples=n, deadline=None, database=None, derandomize=False, suppress_health_check=list(HealthCheck), phases=[Phase.generate], report_multiple_bugs=False)
    @given(strat)
    def t(case):
        try:
            out.append(mod.eval_case(case))
        except _inconclusive():
            out.append(mkres(case, nt=False, classes=['wall-clock-budget-hit-inconclusive']))
        except Exception as e:
            out.append(_exc_result(case, e))

    t()
    cov.dump()
    return out


def _hyp_shrink(args):
    """Re-run the same seeded generation with an assertion on one signature so that Hypothesis's
    own shrinker minimises inside the strategy's domain.  Returns the minimal failing case or None."""
    modname, strategy_name, shard_seed, n, stratargs, sig = args
    import hypothesis
    from hypothesis import given, settings, HealthCheck, Phase
    mod = importlib.import_module(modname)
    strat = getattr(mod, strategy_name)(*stratargs)
    last = [None]

    @hypothesis.seed(shard_seed)
    @settings(max_examples=n, deadline=None, database=None, suppress_health_check=list(HealthCheck), phases=[Phase.generate, Phase.shrink], report_multiple_bugs=False)
    @given(strat)
    def t(case):
        r = mod.eval_case(case)
        if any(f[0] == sig for f in r['fails']):
            last[0] = r
            raise AssertionError(sig)

    try:
        t()
    except AssertionError:
        pass
    except Exception:
        pass
    return last[0]


_pool = None


def pool():
    global _pool
    if _pool is None:
        ctx = multiprocessing.get_context('fork')
        _pool = ctx.Pool(NPROC)
    return _pool


class HarnessError(Exception):
    pass


class Ctx:
    def __init__(self, mod, tier, seed):
        self.mod = mod
        self.modname = mod.__name__
        self.pid = mod.ID
        self.tier = tier
        self.seed = seed
        self.quick = tier == 'quick'
        self.rng = random.Random(seed)
        self.evaluations = 0
        self.nt_keys = set()
        self.all_keys = set()
        self.classes = collections.Counter()
        self.samples = []
        self.nt_samples = []
        self.buckets = {}        # signature -> {'count', 'case', 'detail', 'origin'}
        self.extra = {}
        self.exhaustive = None
        self.harness_errors = []
        self.known = load_known(self.pid)
        self.t0 = time.time()

    # -- consuming results
    def consume(self, results, origin=None):
        for r in results:
            if r.get('harness_error'):
                self.harness_errors.append(r['harness_error'])
                continue
            self.evaluations += 1
            self.all_keys.add(r['key'])
            if r['nt']:
                if r['key'] not in self.nt_keys and len(self.nt_samples) < 6:
                    self.nt_samples.append(slim(r['case']))
                self.nt_keys.add(r['key'])
            for c in r['classes']:
                self.classes[c] += 1
            if len(self.samples) < 3:
                self.samples.append(slim(r['case']))
            for sig, detail in r['fails']:
                b = self.buckets.get(sig)
                size = len(canon(r['case']))
                if b is None:
                    self.buckets[sig] = {'count': 1, 'case': r['case'], 'detail': detail, 'size': size, 'origin': origin}
                else:
                    b['count'] += 1
                    if size < b['size']:
                        b.update(case=r['case'], detail=detail, size=size, origin=origin)

    # -- running
    def map(self, cases, chunk=None):
        """Evaluate explicit cases (enumerated domains) on the pool, in case order."""
        cases = list(cases)
        if not cases:
            return
        if chunk is None:
            chunk = max(1, min(64, len(cases) // (NPROC * 4) or 1))
        batches = [(self.modname, cases[i:i + chunk]) for i in range(0, len(cases), chunk)]
        if len(cases) < 8 or NPROC == 1:
            for b in batches:
                self.consume(_eval_batch(b))
        else:
            for res in pool().imap(_eval_batch, batches):
                self.consume(res)

    def hyp(self, strategy_name, n, stratargs=(), shards=None, label=0):
        """Generate n cases with Hypothesis, sharded over the pool.  Deterministic in (seed, label)."""
        if shards is None:
            shards = NPROC if n >= NPROC * 20 else 1
        per = (n + shards - 1) // shards
        jobs = []
        for i in range(shards):
            shard_seed = (self.seed * 1000003 + label * 1009 + i) & 0x7fffffff
            jobs.append((self.modname, strategy_name, shard_seed, per, tuple(stratargs)))
        if shards == 1:
            results = [_hyp_shard(jobs[0])]
        else:
            results = pool().map(_hyp_shard, jobs)
        for job, res in zip(jobs, results):
            self.consume(res, origin={'hyp': list(job[1:])})

    def note(self, **kw):
        self.extra.update(kw)

    # -- finishing
    def shrink_buckets(self):
        budget = 40 if self.quick else 200
        for sig, b in self.buckets.items():
            if self.is_known(sig):
                continue
            small = None
            if b.get('origin') and 'hyp' in b['origin'] and not self.quick:
                strategy_name, shard_seed, n, stratargs = b['origin']['hyp']
                try:
                    r = pool().apply_async(_hyp_shrink, ((self.modname, strategy_name, shard_seed, n, tuple(stratargs), sig),)).get(330)
                    if r is not None:
                        small = r
                except Exception:
                    small = None
            if small is None:
                small = ddmin_case(self.mod, b['case'], sig, budget)
            if small is not None:
                for s2, d2 in small['fails']:
                    if s2 == sig:
                        b['case'], b['detail'] = small['case'], d2

    def is_known(self, sig):
        return any(k['signature'] == sig and k['status'] == 'finding' for k in self.known)

    def finish(self, level, rule, assumptions=()):
        if self.harness_errors:
            print('HARNESS-ERROR in %s (%d cases), first:\n%s' % (self.pid, len(self.harness_errors), self.harness_errors[0]))
            return 2
        self.shrink_buckets()
        violations = 0
        known_hit = []
        os.makedirs(os.path.join(OUT, 'replays'), exist_ok=True)
        for sig in sorted(self.buckets):
            b = self.buckets[sig]
            k = [k for k in self.known if k['signature'] == sig and k['status'] == 'finding']
            if k:
                known_hit.append({'signature': sig, 'count': b['count']})
                print('KNOWN-FINDING: property=%s %s [%s; %d case(s) this run]' % (self.pid, k[0]['what'], sig, b['count']))
                continue
            violations += 1
            path = os.path.join(OUT, 'replays', '%s-%s.json' % (self.pid, hashlib.sha1(sig.encode()).hexdigest()[:10]))
            with open(path, 'w') as f:
                json.dump({'property': self.pid, 'signature': sig, 'detail': b['detail'], 'count': b['count'], 'case': b['case'], 'seed': self.seed, 'tier': self.tier}, f, indent=1, default=str)
            print('VIOLATION property=%s replay=%s' % (self.pid, path))
            print('  signature: %s\n  detail: %s' % (sig, trunc(b['detail'], 1500)))
        samples = (self.nt_samples + self.samples)[:8]
        cov = {
            'evaluations': self.evaluations,
            'distinct_nontrivial': len(self.nt_keys),
            'distinct_cases': len(self.all_keys),
            'rule': rule,
            'samples': samples,
            'class_histogram': dict(self.classes.most_common(60)),
            'known_findings_hit': known_hit,
        }
        if self.exhaustive is not None:
            cov['exhaustive'] = bool(self.exhaustive)
        cov.update(self.extra)
        ev = {
            'property_id': self.pid, 'tier': self.tier, 'seed': self.seed, 'level': level,
            'coverage': cov, 'assumptions': list(assumptions), 'wall_s': round(time.time() - self.t0, 2), 'violations': violations,
        }
        os.makedirs(os.path.join(OUT, 'evidence'), exist_ok=True)
        with open(os.path.join(OUT, 'evidence', '%s.json' % self.pid), 'w') as f:
            json.dump(ev, f, indent=1, default=str)
        print('%s %s seed=%d: %d cases, %d distinct non-trivial, %d known finding(s), %d violation(s), %.1fs' % (self.pid, self.tier, self.seed, self.evaluations, len(self.nt_keys), len(known_hit), violations, time.time() - self.t0))
        if self.evaluations == 0 or len(self.nt_keys) < 2:
            print('HARNESS-ERROR: check explored nothing non-trivial')
            return 2
        return 1 if violations else 0


def trunc(x, n):
    s = x if isinstance(x, str) else canon(x)
    return s if len(s) <= n else s[:n] + '...[%d more]' % (len(s) - n)


def slim(case, limit=1200):
    """Samples in evidence: the case itself, truncated where a field is huge."""
    def f(v):
        if isinstance(v, str) and len(v) > 200:
            return v[:200] + '...[%d chars]' % len(v)
        if isinstance(v, list):
            return [f(x) for x in v[:40]] + (['...[%d items]' % len(v)] if len(v) > 40 else [])
        if isinstance(v, dict):
            return {k: f(x) for k, x in v.items()}
        return v
    return f(case)


def load_known(pid):
    p = os.path.join(VERIF, 'KNOWN_FINDINGS.json')
    if not os.path.exists(p):
        return []
    with open(p) as f:
        d = json.load(f)
    return [e for e in d.get('entries', []) if e.get('property') == pid]


# ----------------------------------------------------------------------------- generic ddmin

def _paths(obj, prefix=()):
    """Paths to every list inside a JSON value."""
    if isinstance(obj, list):
        yield prefix
        for i, v in enumerate(obj):
            yield from _paths(v, prefix + (i,))
    elif isinstance(obj, dict):
        for k, v in obj.items():
            yield from _paths(v, prefix + (k,))


def _get(obj, path):
    for p in path:
        obj = obj[p]
    return obj


def _with_removed(obj, path, idx):
    o = json.loads(json.dumps(obj))
    lst = _get(o, path)
    del lst[idx]
    return o


def ddmin_case(mod, case, sig, budget):
    """Remove list elements one at a time while the same signature persists.  Only removal is used
    so that the shrunk case stays inside what the check's own `valid_case` accepts."""
    try:
        json.dumps(case)
    except TypeError:
        return None
    valid = getattr(mod, 'valid_case', lambda c: True)
    noshrink = set(getattr(mod, 'NO_SHRINK_KEYS', ()))
    best = None
    cur = case
    progress = True
    while progress and budget > 0:
        progress = False
        for path in list(_paths(cur)):
            if any(p in noshrink for p in path):
                continue
            try:
                lst = _get(cur, path)
            except (IndexError, KeyError, TypeError):
                continue            # an earlier removal changed the structure under this path
            if not isinstance(lst, list):
                continue
            i = len(lst) - 1
            while i >= 0 and budget > 0:
                cand = _with_removed(cur, path, i)
                budget -= 1
                try:
                    if valid(cand):
                        r = mod.eval_case(cand)
                        if any(f[0] == sig for f in r['fails']):
                            cur, best, progress = cand, r, True
                except Exception:
                    pass
                i -= 1
                try:
                    lst = _get(cur, path)
                except (IndexError, KeyError, TypeError):
                    break
                i = min(i, len(lst) - 1)
    return best


# ----------------------------------------------------------------------------- entry

def replay(mod, path):
    with open(path) as f:
        d = json.load(f)
    case = d['case'] if 'case' in d else d
    r = mod.eval_case(case)
    known = load_known(mod.ID)
    rc = 0
    if r.get('harness_error'):
        print(r['harness_error'])
        return 2
    for sig, detail in r['fails']:
        k = [k for k in known if k['signature'] == sig and k['status'] == 'finding']
        if k:
            print('KNOWN-FINDING: property=%s %s [%s]' % (mod.ID, k[0]['what'], sig))
        else:
            print('VIOLATION property=%s replay=%s' % (mod.ID, path))
            print('  signature: %s\n  detail: %s' % (sig, trunc(detail, 3000)))
            rc = 1
    if rc == 0:
        print('replay %s: property held (%d known finding(s))' % (path, len(r['fails'])))
    return rc


def corpus_cases(pid):
    d = os.path.join(VERIF, 'corpus', pid)
    res = []
    if os.path.isdir(d):
        for fn in sorted(os.listdir(d)):
            if fn.endswith('.json'):
                with open(os.path.join(d, fn)) as f:
                    j = json.load(f)
                res.append(j['case'] if 'case' in j else j)
    return res


def main(argv):
    import argparse
    ap = argparse.ArgumentParser()
    ap.add_argument('id')
    ap.add_argument('--tier', default=os.environ.get('VERIF_TIER', 'quick'), choices=['quick', 'thorough'])
    ap.add_argument('--replay', default=None)
    a = ap.parse_args(argv)
    seed = int(os.environ.get('VERIF_SEED', '1') or '1')
    try:
        mod = importlib.import_module('checks.%s' % a.id.lower())
        if a.replay:
            return replay(mod, a.replay)
        ctx = Ctx(mod, a.tier, seed)
        cc = corpus_cases(mod.ID)
        if cc:
            ctx.map(cc)
            ctx.note(corpus_replayed=len(cc))
        rc = mod.run(ctx)
        return rc
    except SystemExit:
        raise
    except BaseException:
        print('HARNESS-ERROR: %s' % traceback.format_exc())
        return 2
    finally:
        if _pool is not None:
            _pool.terminate()

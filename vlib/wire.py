"""Independent SSH wire codec used by every oracle.

Nothing in this module imports ssh_audit: the reference encoders/decoders are written from
RFC 4251/4253, PROTOCOL.certkeys and protocol-1.5 so that the tool's own ReadBuf/WriteBuf are
compared against something they did not produce.
"""
import base64
import hashlib
import struct
import zlib

# ---------------------------------------------------------------- primitives (RFC 4251 §5)


def u32(n):
    return struct.pack('>I', n)


def u64(n):
    return struct.pack('>Q', n)


def sstr(b):
    if isinstance(b, str):
        b = b.encode('utf-8')
    return struct.pack('>I', len(b)) + bytes(b)


def mpint_bytes(n):
    """Two's complement, big endian, minimal length (RFC 4251 mpint body)."""
    if n == 0:
        return b''
    if n > 0:
        l = n.bit_length() // 8 + 1
    else:
        l = (n + 1).bit_length() // 8 + 1
    return n.to_bytes(l, 'big', signed=True)


def mpint(n):
    return sstr(mpint_bytes(n))


def mpint_decode(body):
    if len(body) == 0:
        return 0
    return int.from_bytes(body, 'big', signed=True)


def mpint1(n):
    """SSH-1 mpint: 16-bit bit count then ceil(bits/8) bytes, unsigned."""
    bits = n.bit_length()
    return struct.pack('>H', bits) + n.to_bytes((bits + 7) // 8, 'big')


def namelist(names):
    """names: iterable of bytes or str; joined with ','."""
    bs = [x if isinstance(x, bytes) else x.encode('utf-8') for x in names]
    return sstr(b','.join(bs))


class Reader:
    def __init__(self, data):
        self.d = bytes(data)
        self.p = 0

    def take(self, n):
        if n < 0 or self.p + n > len(self.d):
            raise ValueError('short read')
        r = self.d[self.p:self.p + n]
        self.p += n
        return r

    def byte(self):
        return self.take(1)[0]

    def u32(self):
        return struct.unpack('>I', self.take(4))[0]

    def string(self):
        return self.take(self.u32())

    def mpint(self):
        return mpint_decode(self.string())

    def namelist(self):
        return self.string().split(b',')

    def rest(self):
        return self.d[self.p:]


# ---------------------------------------------------------------- SSH-2 packets (RFC 4253 §6)

def pkt(payload, pad=None):
    padding = -(len(payload) + 5) % 8
    if padding < 4:
        padding += 8
    if pad is not None:
        padding = pad
    return struct.pack('>IB', len(payload) + padding + 1, padding) + payload + b'\x00' * padding


def check_packet_framing(raw):
    """Strict RFC 4253 §6 check of one complete packet (no MAC).  Returns (payload, problems)."""
    problems = []
    if len(raw) < 5:
        return None, ['shorter than header']
    plen, padlen = struct.unpack('>IB', raw[:5])
    if len(raw) != 4 + plen:
        problems.append('length field %d does not match %d bytes on the wire' % (plen, len(raw) - 4))
    if len(raw) % 8 != 0:
        problems.append('total length %d not a multiple of 8' % len(raw))
    if padlen < 4:
        problems.append('padding %d < 4' % padlen)
    if len(raw) < 16:
        problems.append('packet shorter than 16 bytes')
    if plen < padlen + 1:
        problems.append('padding longer than packet')
        return None, problems
    payload = raw[5:4 + plen - padlen]
    return payload, problems


def split_packets(stream):
    """Split a byte stream into complete SSH-2 packets; returns (list_of_raw, leftover)."""
    out = []
    p = 0
    while len(stream) - p >= 5:
        plen = struct.unpack('>I', stream[p:p + 4])[0]
        if len(stream) - p < 4 + plen:
            break
        out.append(bytes(stream[p:p + 4 + plen]))
        p += 4 + plen
    return out, bytes(stream[p:])


# ---------------------------------------------------------------- KEXINIT

KEXINIT_FIELDS = ('kex', 'key', 'enc_c2s', 'enc_s2c', 'mac_c2s', 'mac_s2c', 'comp_c2s', 'comp_s2c', 'lang_c2s', 'lang_s2c')


def kexinit(kex, key, enc, mac, comp=(b'none',), lang=(b'',), enc_c=None, mac_c=None, comp_c=None, cookie=b'\x00' * 16, follows=False, reserved=0, lang_c=None):
    """Build a KEXINIT payload (type byte included).  List arguments are iterables of names
    (bytes/str) or a ready-made bytes value for the whole name-list body."""
    enc_c = enc if enc_c is None else enc_c
    mac_c = mac if mac_c is None else mac_c
    comp_c = comp if comp_c is None else comp_c
    lang_c = lang if lang_c is None else lang_c
    out = b'\x14' + cookie
    for l in (kex, key, enc_c, enc, mac_c, mac, comp_c, comp, lang_c, lang):
        out += sstr(l) if isinstance(l, (bytes, bytearray)) else namelist(l)
    out += bytes([1 if follows else 0]) + u32(reserved)
    return out


def parse_kexinit(payload, strict=True):
    """Reference parser.  payload includes the type byte.  Returns dict field->list of bytes names.
    strict=True additionally requires no trailing bytes."""
    r = Reader(payload)
    if r.byte() != 20:
        raise ValueError('not KEXINIT')
    res = {'cookie': r.take(16)}
    for f in KEXINIT_FIELDS:
        res[f] = r.namelist()
    res['follows'] = r.byte() != 0
    res['reserved'] = r.u32()
    if strict and r.rest():
        raise ValueError('trailing bytes')
    return res


def kexinit_field_offsets(payload):
    """Offsets (into payload incl. type byte) of each name-list length field; used by fault plans."""
    offs = []
    p = 17
    for _ in KEXINIT_FIELDS:
        if p + 4 > len(payload):
            break
        n = struct.unpack('>I', payload[p:p + 4])[0]
        offs.append(p)
        p += 4 + n
    return offs, p


# ---------------------------------------------------------------- key blobs, certificates

def rsa_modulus(bits):
    """A number with exactly `bits` bits (odd)."""
    if bits < 2:
        return 1
    return (1 << (bits - 1)) | 1


def rsa_blob(bits, e=65537, name=b'ssh-rsa', n=None):
    n = rsa_modulus(bits) if n is None else n
    return sstr(name) + mpint(e) + mpint(n)


def ed25519_blob(pk=b'\x11' * 32):
    return sstr(b'ssh-ed25519') + sstr(pk)


def ed448_blob(pk=b'\x12' * 57):
    return sstr(b'ssh-ed448') + sstr(pk)


ECDSA_QLEN = {'nistp256': 65, 'nistp384': 97, 'nistp521': 133}
ECDSA_BITS = {'nistp256': 256, 'nistp384': 384, 'nistp521': 521}


def ecdsa_blob(curve='nistp256'):
    c = curve.encode()
    return sstr(b'ecdsa-sha2-' + c) + sstr(c) + sstr(b'\x04' + b'\x33' * (ECDSA_QLEN[curve] - 1))


def sk_ed25519_blob(pk=b'\x13' * 32, application=b'ssh:'):
    """FIDO/U2F-backed Ed25519 key (PROTOCOL.u2f): string type, string pk, string application"""
    return sstr(b'sk-ssh-ed25519@openssh.com') + sstr(pk) + sstr(application)


def sk_ecdsa_blob(application=b'ssh:'):
    return sstr(b'sk-ecdsa-sha2-nistp256@openssh.com') + sstr(b'nistp256') + sstr(b'\x04' + b'\x33' * 64) + sstr(application)


def dss_blob(pbits=1024):
    p = rsa_modulus(pbits)
    return sstr(b'ssh-dss') + mpint(p) + mpint(rsa_modulus(160)) + mpint(2) + mpint(rsa_modulus(pbits - 1))


def cert_blob(kind, host_bits, ca_blob, cert_type=2, host_n=None, fields=None):
    """OpenSSH certificate (PROTOCOL.certkeys).  kind: inner type name, e.g.
    'ssh-rsa-cert-v01@openssh.com' or 'ssh-ed25519-cert-v01@openssh.com'.
    fields (optional dict of latin-1 strings / ints): nonce, e, serial, key_id, principals (list), valid_after,
    valid_before, critical_options (list of [name, data]), extensions (list of [name, data]), reserved, signature."""
    f = fields or {}
    L1 = lambda v: v.encode('latin-1') if isinstance(v, str) else v
    opts = lambda l: b''.join(sstr(L1(n)) + sstr(sstr(L1(d)) if d != '' else b'') for n, d in l)
    k = kind.encode() if isinstance(kind, str) else kind
    b = sstr(k) + sstr(L1(f.get('nonce', 'N' * 32)))
    if k.startswith(b'ssh-rsa'):
        b += mpint(f.get('e', 65537)) + mpint(rsa_modulus(host_bits) if host_n is None else host_n)
    elif k.startswith(b'ssh-ed25519'):
        b += sstr(b'\x22' * 32)
    elif k.startswith(b'ecdsa-sha2-'):
        c = k[len(b'ecdsa-sha2-'):].split(b'-')[0]
        b += sstr(c) + sstr(b'\x04' + b'\x33' * (ECDSA_QLEN[c.decode()] - 1))
    elif k.startswith(b'sk-ssh-ed25519'):
        b += sstr(b'\x23' * 32) + sstr(b'ssh:')
    elif k.startswith(b'sk-ecdsa-sha2-nistp256'):
        b += sstr(b'nistp256') + sstr(b'\x04' + b'\x33' * 64) + sstr(b'ssh:')
    elif k.startswith(b'ssh-dss'):
        pb = host_bits or 1024
        b += mpint(rsa_modulus(pb)) + mpint(rsa_modulus(160)) + mpint(2) + mpint(rsa_modulus(pb - 1))
    else:
        raise ValueError(kind)
    b += u64(f.get('serial', 1)) + u32(cert_type) + sstr(L1(f.get('key_id', 'keyid'))) + sstr(b''.join(sstr(L1(x)) for x in f.get('principals', ['host.example'])))
    b += u64(f.get('valid_after', 0)) + u64(f.get('valid_before', 2 ** 64 - 1)) + sstr(opts(f.get('critical_options', []))) + sstr(opts(f.get('extensions', []))) + sstr(L1(f.get('reserved', '')))
    b += sstr(ca_blob) + sstr(L1(f['signature']) if 'signature' in f else sstr(b'ssh-rsa') + sstr(b'S' * 16))
    return b


def fingerprints(blob):
    sha = 'SHA256:' + base64.b64encode(hashlib.sha256(blob).digest()).decode().rstrip('=')
    md5 = 'MD5:' + ':'.join('%02x' % b for b in hashlib.md5(blob).digest())
    return sha, md5


# ---------------------------------------------------------------- KEX replies

def kexdh_reply(blob, f=12345, sig=None, msg=31):
    sig = sstr(sstr(b'ssh-rsa') + sstr(b'sig')) if sig is None else sig
    return bytes([msg]) + sstr(blob) + mpint(f) + sig


def gex_group(p, g=2):
    return b'\x1f' + mpint(p) + mpint(g)


# ---------------------------------------------------------------- SSH-1

SSH1_CIPHERS = ['none', 'idea', 'des', '3des', 'tss', 'rc4', 'blowfish']          # protocol-1.5 numbering 0..6
SSH1_AUTHS = [None, 'rhosts', 'rsa', 'password', 'rhosts_rsa', 'tis', 'kerberos']  # 1..6 (0 unused)


def ssh1_crc(data):
    """SSH-1 'CRC-32': polynomial 0xedb88320, initial value 0, no final xor."""
    return zlib.crc32(data, 0xffffffff) ^ 0xffffffff


def ssh1_pkm_payload(cmask, amask, skey_bits=768, hkey_bits=1024, pflags=2, cookie=b'\x01' * 8, skey_e=65537, hkey_e=65537, skey_n=None, hkey_n=None):
    """SSH_SMSG_PUBLIC_KEY payload without the type byte."""
    skey_n = rsa_modulus(skey_bits) if skey_n is None else skey_n
    hkey_n = rsa_modulus(hkey_bits) if hkey_n is None else hkey_n
    return (cookie + u32(skey_bits) + mpint1(skey_e) + mpint1(skey_n) + u32(hkey_bits) + mpint1(hkey_e) + mpint1(hkey_n)
            + u32(pflags) + u32(cmask) + u32(amask))


def ssh1_packet(ptype, body, bad_crc=False, pad=None):
    """SSH-1 packet.  The 1-8 padding bytes are random in real implementations: they are non-zero here by default
    (pad = None), all equal to `pad` when an int is given; bad_crc = True flips a bit of the checksum, 'no-padding'
    computes it over type + body only (wrong unless the padding happens to be zero)."""
    data = bytes([ptype]) + body
    length = len(data) + 4
    npad = 8 - length % 8
    padding = bytes((0x5a + 37 * i) & 0xff for i in range(npad)) if pad is None else bytes([pad & 0xff]) * npad
    crc = ssh1_crc(data) if bad_crc == 'no-padding' else ssh1_crc(padding + data)
    if bad_crc is True:
        crc ^= 1
    return u32(length) + padding + data + u32(crc)


def ssh1_parse_packet(raw):
    """Reference SSH-1 packet reader; returns (type, body) or raises ValueError."""
    if len(raw) < 4:
        raise ValueError('short')
    length = struct.unpack('>I', raw[:4])[0]
    padlen = 8 - length % 8
    if len(raw) != 4 + padlen + length:
        raise ValueError('length mismatch')
    padded = raw[4:4 + padlen + length - 4]
    crc = struct.unpack('>I', raw[-4:])[0]
    if ssh1_crc(padded) != crc:
        raise ValueError('crc')
    data = padded[padlen:]
    return data[0], data[1:]

"""Reference models written from the property statements and the README, not from the code paths
they check: numeric version order, 'available in version', rating classes of database names."""
import re

PRODUCTS = {'OpenSSH': 'OpenSSH', 'Dropbear SSH': 'Dropbear SSH', 'libssh': 'libssh', 'TinySSH': 'TinySSH'}
VERSIONED_PRODUCTS = ('OpenSSH', 'Dropbear SSH', 'libssh', 'TinySSH')


def _int(x):
    """int(x) for a digit string of any length (the interpreter refuses to convert more than 4300 digits at once)"""
    n = 0
    for i in range(0, len(x), 4000):
        part = x[i:i + 4000]
        n = n * 10 ** len(part) + int(part)
    return n


def vtuple(v):
    return tuple(_int(x) for x in v.split('.'))


def vcmp(a, b):
    ta, tb = vtuple(a), vtuple(b)
    return (ta > tb) - (ta < tb)


def prefix_related(a, b):
    ta, tb = vtuple(a), vtuple(b)
    n = min(len(ta), len(tb))
    return ta[:n] == tb[:n]


def split_db_version(desc):
    """'7.4' -> ('OpenSSH','7.4',False); 'd2018.76' -> Dropbear; 'l10.6.0' -> libssh 0.6.0; trailing C = client only."""
    client = desc.endswith('C')
    if client:
        desc = desc[:-1]
    if desc.startswith('d'):
        return 'Dropbear SSH', desc[1:], client
    if desc.startswith('l1'):
        return 'libssh', desc[2:], client
    return 'OpenSSH', desc, client


def first_versions(entry):
    """Versions in which the database says the algorithm first appeared: list of (product, version, client_only)."""
    vs = entry[0]
    if len(vs) == 0 or vs[0] is None:
        return None
    res = []
    for d in vs[0].split(','):
        p, v, c = split_db_version(d)
        if v:
            res.append((p, v, c))
    return res


def available_in(entry, product, version, for_server=True):
    """True iff the table lists the identified product at a version numerically <= version."""
    fv = first_versions(entry)
    if not fv:
        return False
    for p, v, c in fv:
        if p != product or (c and for_server):
            continue
        if re.fullmatch(r'[\d.]*\d', v) and vcmp(version, v) >= 0:
            return True
    return False


def static_faults(entry):
    nf = len(entry[1]) if len(entry) > 1 else 0
    nw = len(entry[2]) if len(entry) > 2 else 0
    return nf, nw


def gss_wildcard(name):
    if name.startswith('gss-') and '-' in name[4:]:
        return name[:name.rindex('-')] + '-*'
    return None


def db_lookup(db, cat, name):
    """Database entry for an advertised name, honouring the documented gss-* wildcard for kex."""
    if name in db[cat]:
        return db[cat][name]
    if cat == 'kex':
        w = gss_wildcard(name)
        if w and w in db[cat]:
            return db[cat][w]
    return None


def rating_class(entry):
    if entry is None:
        return 'unknown'
    nf, nw = static_faults(entry)
    return 'fail' if nf else ('warn' if nw else 'clean')


# ---- Terrapin (CVE-2023-48795) published rule, by name shape
def is_chacha(name):
    return name.startswith('chacha20-poly1305')


def is_cbc(name):
    return re.search(r'(^|[-_])cbc($|[-@_])', name) is not None


def is_etm(name):
    return name.endswith('-etm@openssh.com')

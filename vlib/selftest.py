"""Sensitivity self-test:  ./check selftest <ID> [name-substring]   or   ./check selftest all

For every mutant listed in mutants/<ID>.json (a realistic source change that keeps the repo's own
tests green) the repo is copied to a scratch directory outside /repo and /verif, the edit is applied
there, the quick check is run against the copy (VERIF_REPO_ROOT) with its output redirected away
from /verif/evidence, and exit status 1 is expected.  The copy is deleted afterwards.
Also accepts seeded changes kept as /verif/seeded/<name>/patch.diff (applied with `patch -p1`)."""
import json
import os
import shutil
import subprocess
import sys
import tempfile

VERIF = os.path.dirname(os.path.dirname(os.path.abspath(__file__)))
REPO = '/repo'


def scratch_copy():
    d = tempfile.mkdtemp(prefix='verif-mut-')
    shutil.copytree(os.path.join(REPO, 'src'), os.path.join(d, 'src'), ignore=shutil.ignore_patterns('__pycache__', '*.egg-info'))
    shutil.copy(os.path.join(REPO, 'ssh-audit.py'), d)
    return d


def apply_edit(root, m):
    if 'edits' in m:
        for e in m['edits']:
            apply_edit(root, dict(e, name=m['name']))
        return
    p = os.path.join(root, m['file'])
    s = open(p).read()
    if s.count(m['old']) != 1:
        raise RuntimeError('mutant %s: pattern occurs %d times in %s' % (m['name'], s.count(m['old']), m['file']))
    open(p, 'w').write(s.replace(m['old'], m['new']))


JOBS = 1


def run_check(pid, root, tier='quick', seed='1'):
    out = tempfile.mkdtemp(prefix='verif-out-')
    env = dict(os.environ, VERIF_REPO_ROOT=root, VERIF_OUT=out, VERIF_SEED=seed)
    if JOBS > 1:
        env['VERIF_NPROC'] = str(max(2, 16 // JOBS))
    try:
        p = subprocess.run([os.path.join(VERIF, 'check'), pid, '--tier', tier], env=env, stdout=subprocess.PIPE, stderr=subprocess.STDOUT, timeout=3600)
        text = p.stdout.decode('utf-8', 'replace')
        return p.returncode, text
    finally:
        shutil.rmtree(out, ignore_errors=True)


def repo_tests_pass(root):
    env = dict(os.environ, PYTHONPATH=os.path.join(root, 'src'))
    p = subprocess.run(['/venv/bin/python', '-m', 'pytest', '-q', '-x', '-p', 'no:cacheprovider', os.path.join(REPO, 'test')], env=env, cwd=root, stdout=subprocess.PIPE, stderr=subprocess.STDOUT)
    return p.returncode == 0, p.stdout.decode('utf-8', 'replace')[-400:]


def selftest(pid, only=None, check_tests=False):
    path = os.path.join(VERIF, 'mutants', '%s.json' % pid)
    muts = json.load(open(path)) if os.path.exists(path) else []
    muts = [m for m in muts if not only or only in m['name']]
    if JOBS > 1:
        import concurrent.futures
        results = []
        with concurrent.futures.ThreadPoolExecutor(JOBS) as ex:
            for r in ex.map(lambda m: _selftest_one(pid, m, check_tests, quiet=True), muts):
                results.append(r[:4])
                print(r[4], end='')
        return results
    return [_selftest_one(pid, m, check_tests)[:4] for m in muts]


def _selftest_one(pid, m, check_tests, quiet=False):
    lines = []

    def say(x):
        lines.append(x + '\n')
        if not quiet:
            print(x)
    results = []
    for m in [m]:
        root = scratch_copy()
        try:
            try:
                apply_edit(root, m)
            except RuntimeError as e:
                say('%-8s %-55s exit=2 HARNESS-ERROR %s' % (pid, m['name'], e))
                results.append((m['name'], 2, [], None))
                continue
            tests_ok = None
            if check_tests:
                tests_ok, _ = repo_tests_pass(root)
            rc, text = run_check(pid, root)
            sigs = [l.strip()[len('signature: '):] for l in text.splitlines() if l.strip().startswith('signature: ')]
            results.append((m['name'], rc, sigs[:4], tests_ok))
            say('%-8s %-55s exit=%d %s %s' % (pid, m['name'], rc, 'CAUGHT' if rc == 1 else ('HARNESS-ERROR' if rc == 2 else 'MISSED'), '' if tests_ok is None else ('repo-tests=%s' % ('pass' if tests_ok else 'FAIL'))))
            for s in sigs[:3]:
                say('           %s' % s[:150])
            if rc == 2:
                say(text[-800:])
        finally:
            shutil.rmtree(root, ignore_errors=True)
    return results[0] + (''.join(lines),)


def seeded(name, pids, tier='quick'):
    d = os.path.join(VERIF, 'seeded', name)
    root = scratch_copy()
    try:
        p = subprocess.run(['patch', '-p1', '-s', '-i', os.path.join(d, 'patch.diff')], cwd=root, stdout=subprocess.PIPE, stderr=subprocess.STDOUT)
        if p.returncode != 0:
            print('seeded %s: patch does not apply: %s' % (name, p.stdout.decode()[-300:]))
            return
        for pid in pids:
            rc, text = run_check(pid, root, tier)
            sigs = [l.strip()[len('signature: '):] for l in text.splitlines() if l.strip().startswith('signature: ')]
            print('seeded %-40s %-4s exit=%d %s' % (name, pid, rc, 'CAUGHT' if rc == 1 else ('HARNESS-ERROR' if rc == 2 else 'MISSED')))
            for s in sigs[:3]:
                print('           %s' % s[:150])
            if rc == 2:
                print(text[-600:])
            # keep the seed's record current: which checks detect it now (quick tier, this tree)
            mp = os.path.join(d, 'meta.json')
            meta = json.load(open(mp))
            meta.setdefault('results', {})[pid] = {'exit': rc, 'signatures': sigs[:5]}
            if pid not in meta.get('checks', []):
                meta.setdefault('checks', []).append(pid)
            json.dump(meta, open(mp, 'w'), indent=1)
    finally:
        shutil.rmtree(root, ignore_errors=True)


def main(argv):
    if not argv:
        print(__doc__)
        return 2
    global JOBS
    if '--jobs' in argv:
        i = argv.index('--jobs')
        JOBS = int(argv[i + 1])
        del argv[i:i + 2]
    if argv[0] == 'seeded':
        names = sorted(os.listdir(os.path.join(VERIF, 'seeded'))) if argv[1] == 'all' else [argv[1]]

        def one(n):
            meta = json.load(open(os.path.join(VERIF, 'seeded', n, 'meta.json')))
            seeded(n, argv[2:] or meta.get('checks', [meta['property']]))
        if JOBS > 1:
            import concurrent.futures
            with concurrent.futures.ThreadPoolExecutor(JOBS) as ex:
                list(ex.map(one, names))
        else:
            for n in names:
                one(n)
        return 0
    check_tests = '--tests' in argv
    argv = [a for a in argv if a != '--tests']
    pids = sorted(f[:-5] for f in os.listdir(os.path.join(VERIF, 'mutants')) if f.endswith('.json')) if argv[0] == 'all' else [argv[0]]
    missed = 0
    for pid in pids:
        for name, rc, sigs, t in selftest(pid, argv[1] if len(argv) > 1 else None, check_tests):
            if rc != 1:
                missed += 1
    return 1 if missed else 0


if __name__ == '__main__':
    sys.exit(main(sys.argv[1:]))

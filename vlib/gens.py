"""Hypothesis strategies shared by the checks.  Names travel as latin-1 strings (one char = one byte)."""
from hypothesis import strategies as st

B64 = 'ABCDEFGHIJKLMNOPQRSTUVWXYZabcdefghijklmnopqrstuvwxyz0123456789+/'
RFC_NAME_ALPHABET = ''.join(chr(c) for c in range(33, 127) if chr(c) != ',')
# bytes that can never be part of valid UTF-8 in any position pattern we generate: lone continuation
# bytes and 0xF8..0xFF, so every one of them decodes to exactly one U+FFFD
NON_UTF8 = ''.join(chr(c) for c in list(range(0x80, 0xC0)) + list(range(0xF8, 0x100)))
CATS = ('kex', 'key', 'enc', 'mac')


def db():
    from ssh_audit.ssh2_kexdb import SSH2_KexDB
    return SSH2_KexDB.MASTER_DB


def db_names(cat):
    return sorted(n for n in db()[cat] if not n.endswith('-*'))


def gss_prefixes():
    return sorted(n[:-1] for n in db()['kex'] if n.endswith('-*'))


def gss_name():
    return st.tuples(st.sampled_from(gss_prefixes()), st.text(alphabet=B64, min_size=1, max_size=24), st.sampled_from(['', '=', '=='])).map(lambda t: t[0] + t[1] + t[2])


def unknown_gss_name():
    """gss-* key exchanges of families the table has no wildcard entry for: unknown names, shown as advertised."""
    other_family = st.tuples(st.sampled_from(['gss-group20-sha512-', 'gss-group14-sha512-', 'gss-curve25519-sha512-', 'gss-nistp256-sha512-', 'gss-', 'gss-x-', 'gss-gex-sha512-']), st.text(alphabet=B64, min_size=1, max_size=24), st.sampled_from(['', '=', '=='])).map(lambda t: t[0] + t[1] + t[2])
    # a family the table knows followed by more than the one base64 field an instantiation has (base64 has no '-')
    extra_field = st.tuples(st.sampled_from(gss_prefixes()), st.sampled_from(['v2-', 'x-y-', 'sha1-', '-', 'a-b-c-']), st.text(alphabet=B64, min_size=1, max_size=24), st.sampled_from(['', '=', '=='])).map(lambda t: t[0] + t[1] + t[2] + t[3])
    return st.one_of(other_family, other_family, extra_field)


def unknown_name(max_size=40):
    return st.text(alphabet=RFC_NAME_ALPHABET, min_size=1, max_size=max_size)


def long_name():
    return st.integers(200, 4096).flatmap(lambda n: st.text(alphabet='abcdefghijklmnopqrstuvwxyz0123456789-@.', min_size=n, max_size=n))


def nonutf8_name():
    return st.text(alphabet=NON_UTF8, min_size=1, max_size=8)


UTF8_EDGE = ['\u00a0', '\u0085', '\u2028', '\u3000', '\u200b', '\u00e9', '\u2003', '\ufeff', '\u1680']


def utf8_edge_name(cat):
    """A name that differs from a database name (or an ordinary unknown one) only by a valid UTF-8 character at its
    start or end - characters that string clean-up routines like to treat as blanks.  Such a name is a name of its own."""
    return st.tuples(st.one_of(st.sampled_from(db_names(cat)), unknown_name(12), st.just('')), st.sampled_from(UTF8_EDGE), st.sampled_from(['pre', 'post', 'post', 'both'])).map(
        lambda t: ((t[1] if t[2] in ('pre', 'both') else '') + t[0] + (t[1] if t[2] in ('post', 'both') else '')).encode('utf-8').decode('latin-1'))


def name(cat, empty=True, weird=True):
    s = [(8, st.sampled_from(db_names(cat))), (2, unknown_name())]
    if weird:
        s += [(1, nonutf8_name()), (1, unknown_name(64)), (1, utf8_edge_name(cat))]
    if empty:
        s.append((1, st.just('')))
    if cat == 'kex':
        s.append((2, gss_name()))
        s.append((1, unknown_gss_name()))
    # weighted choice
    pool = []
    for w, x in s:
        pool += [x] * w
    return st.one_of(*pool)


def namelist(cat, min_size=0, max_size=6, **kw):
    return st.lists(name(cat, **kw), min_size=min_size, max_size=max_size)


def rated_names(cat):
    """name -> class in ('fail','warn','clean') from the static table."""
    res = {}
    for n, e in db()[cat].items():
        if n.endswith('-*'):
            continue
        nf = len(e[1]) if len(e) > 1 else 0
        nw = len(e[2]) if len(e) > 2 else 0
        res[n] = 'fail' if nf else ('warn' if nw else 'clean')
    return res


def rated_peer():
    """Peers whose lists are random mixtures and orderings of fail-rated, warn-only and clean
    database names (classes from the tree's table).  Returns dict cat -> list of names (>= 1 each)."""
    def one(cat):
        rn = rated_names(cat)
        by = {'fail': sorted(n for n, c in rn.items() if c == 'fail'), 'warn': sorted(n for n, c in rn.items() if c == 'warn'), 'clean': sorted(n for n, c in rn.items() if c == 'clean')}
        parts = []
        for cls in ('fail', 'warn', 'clean'):
            if by[cls]:
                parts.append(st.lists(st.sampled_from(by[cls]), min_size=0, max_size=3, unique=True))
            else:
                parts.append(st.just([]))
        def mix(t):
            f, w, c, which, perm = t
            l = (f if which & 1 else []) + (w if which & 2 else []) + (c if which & 4 else [])
            if not l:
                l = (c or w or f or [sorted(rn)[0]])[:1] if (c or w or f) else [sorted(rn)[0]]
            l = list(dict.fromkeys(l))
            # deterministic shuffle driven by drawn integers
            out = []
            for i, x in enumerate(l):
                out.insert(perm[i % len(perm)] % (len(out) + 1), x)
            return out
        return st.tuples(parts[0], parts[1], parts[2], st.integers(1, 7), st.lists(st.integers(0, 9), min_size=1, max_size=9)).map(mix)
    return st.fixed_dictionaries({c: one(c) for c in CATS})


def all_clean_peer():
    res = {}
    for c in CATS:
        rn = rated_names(c)
        clean = sorted(n for n, k in rn.items() if k == 'clean')
        res[c] = st.lists(st.sampled_from(clean), min_size=1, max_size=3, unique=True)
    return st.fixed_dictionaries(res)

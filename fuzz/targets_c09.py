"""C09 parser-level fuzz targets.  The oracle inside the target is the *caller contract*: a parser may
return, or raise only what every one of its call sites catches; anything else would surface as a
traceback (internal-error status) in a real audit."""
import struct

from fuzz.targets import register


class _StubSocket:
    """Feeds pre-cut segments to SSH_Socket.recv()."""

    def __init__(self, data, seg):
        self.data = bytearray(data)
        self.seg = seg

    def recv(self, n):
        import socket
        if not self.data:
            raise socket.timeout('timed out')
        k = min(n, len(self.data), self.seg or len(self.data))
        d = bytes(self.data[:k])
        del self.data[:k]
        return d

    def send(self, d):
        return len(d)

    def settimeout(self, t):
        pass

    def shutdown(self, how):
        pass

    def close(self):
        pass


class _ReplySock:
    """What KexDH.recv_reply / send_init_gex need from an SSH_Socket."""

    def __init__(self, pkts):
        self.pkts = list(pkts)

    def read_packet(self, sshv=2):
        if self.pkts:
            return self.pkts.pop(0)
        return -1, b''

    def write_byte(self, v):
        pass

    def write_int(self, v):
        pass

    def write_mpint2(self, v):
        pass

    def write_string(self, v):
        pass

    def send_packet(self):
        pass


def _sock(data, seg):
    from ssh_audit.ssh_socket import SSH_Socket
    from ssh_audit.outputbuffer import OutputBuffer
    s = SSH_Socket(OutputBuffer(), 'h', 22)
    s._SSH_Socket__sock = _StubSocket(data, seg)
    return s


@register('c09_parsers')
def c09_parsers(data):
    import contextlib
    import io
    from ssh_audit.kexdh import KexDHException, KexCurve25519_SHA256, KexGroupExchange_SHA256
    from ssh_audit.outputbuffer import OutputBuffer
    fails = []
    if len(data) < 2:
        return fails
    sel, body = data[0] % 6, data[1:]
    out = OutputBuffer()
    try:
        with contextlib.redirect_stdout(io.StringIO()):
            if sel == 0:
                try:
                    KexCurve25519_SHA256(out).recv_reply(_ReplySock([(31, body)]))
                except (KexDHException, struct.error, ValueError, IndexError):
                    pass
            elif sel == 1:
                try:
                    KexGroupExchange_SHA256(out).send_init_gex(_ReplySock([(31, body)]), 2048, 2048, 2048)
                except (KexDHException, struct.error, ValueError, IndexError):
                    pass
            elif sel == 2:
                from ssh_audit.ssh2_kex import SSH2_Kex
                try:
                    SSH2_Kex.parse(out, body)
                except struct.error:
                    pass
            elif sel == 3:
                from ssh_audit.ssh1_publickeymessage import SSH1_PublicKeyMessage
                try:
                    m = SSH1_PublicKeyMessage.parse(body)
                    m.supported_ciphers, m.supported_authentications, m.host_key_fingerprint_data
                except (struct.error, ValueError):
                    pass
            elif sel == 4:
                seg = body[0] % 9 if body else 0
                s = _sock(body[1:], seg)
                try:
                    t, p = s.read_packet(2 if (body[0] & 0x80) == 0 else 1)
                    if not isinstance(t, int) or not isinstance(p, bytes):
                        fails.append(['fuzz-read-packet-result-type', repr((t, p))[:100]])
                except SystemExit as e:
                    if e.code != 1:
                        fails.append(['fuzz-read-packet-exit-code', repr(e.code)])
            else:
                seg = body[0] % 9 if body else 0
                s = _sock(body[1:], seg)
                b, hdr, err = s.get_banner()
                if b is not None and not str(b).startswith('SSH-'):
                    fails.append(['fuzz-banner-without-ssh-prefix', repr(str(b))[:100]])
    except SystemExit as e:
        fails.append(['fuzz-parser-called-exit', 'selector %d code %r' % (sel, e.code)])
    except Exception as e:
        import traceback
        tb = traceback.extract_tb(e.__traceback__)
        fr = [f for f in tb if '/ssh_audit/' in f.filename]
        fails.append(['fuzz-uncaught:%s@%s:selector-%d' % (type(e).__name__, fr[-1].name if fr else '?', sel), repr(e)[:200]])
    return fails

"""C09 parser-level fuzz targets (filled in with the C09 check)."""

"""Byte-level fuzz targets (parser level).  Each target is a pure function data -> list of
[signature, detail]; the semantic oracle (round-trip, caller contract) is inside the target.
The atheris driver (fuzz/driver.py) and the replay path of the checks both call these."""
import struct

from vlib import wire


# ------------------------------------------------------------------ C10: decode -> encode -> decode

def c10_roundtrip(data):
    from ssh_audit.readbuf import ReadBuf
    from ssh_audit.writebuf import WriteBuf
    fails = []
    if len(data) < 1:
        return fails
    sel, body = data[0] % 4, data[1:]
    if sel == 0:
        # any byte string is a valid two's-complement mpint body
        n_ref = wire.mpint_decode(body)
        n = ReadBuf(wire.sstr(body)).read_mpint2()
        if n != n_ref:
            fails.append(['fuzz-mpint2-decode', 'body %s: tool %d, reference %d' % (body.hex()[:80], n, n_ref)])
        enc = WriteBuf().write_mpint2(n_ref).write_flush()
        if enc != wire.mpint(n_ref):
            fails.append(['fuzz-mpint2-encode', 'n=%d' % n_ref])
        elif ReadBuf(enc).read_mpint2() != n_ref:
            fails.append(['fuzz-mpint2-reencode-decode', 'n=%d' % n_ref])
    elif sel == 1:
        from ssh_audit.ssh2_kex import SSH2_Kex
        from ssh_audit.outputbuffer import OutputBuffer
        try:
            k1 = SSH2_Kex.parse(OutputBuffer(), body)
        except struct.error:
            return fails
        p1 = k1.payload
        k2 = SSH2_Kex.parse(OutputBuffer(), p1)
        if k2.payload != p1:
            fails.append(['fuzz-kexinit-reencode-not-idempotent', body.hex()[:120]])
        try:
            ref = wire.parse_kexinit(b'\x14' + body, strict=False)
        except ValueError:
            ref = None
        if ref is not None:
            lists = [k1.kex_algorithms, k1.key_algorithms, k1.client.encryption, k1.server.encryption, k1.client.mac, k1.server.mac, k1.client.compression, k1.server.compression, k1.client.languages, k1.server.languages]
            refl = [b','.join(ref[f]).decode('utf-8', 'replace').split(',') for f in wire.KEXINIT_FIELDS]
            if lists != refl:
                fails.append(['fuzz-kexinit-fields', body.hex()[:120]])
            valid_utf8 = True
            try:
                for f in wire.KEXINIT_FIELDS:
                    b','.join(ref[f]).decode('utf-8')
            except UnicodeDecodeError:
                valid_utf8 = False
            n_consumed = len(p1)
            if valid_utf8 and body[n_consumed - 5] in (0, 1) and body[:n_consumed] != p1:
                # re-encoding must give back exactly the bytes that were consumed
                fails.append(['fuzz-kexinit-reencode', body.hex()[:120]])
    elif sel == 2:
        from ssh_audit.ssh1_publickeymessage import SSH1_PublicKeyMessage
        try:
            m = SSH1_PublicKeyMessage.parse(body)
        except struct.error:
            return fails
        p1 = m.payload
        m2 = SSH1_PublicKeyMessage.parse(p1)
        if m2.payload != p1:
            fails.append(['fuzz-pkm-reencode-not-idempotent', body.hex()[:120]])
        if (m2.host_key_public_modulus, m2.supported_ciphers_mask, m2.supported_authentications_mask) != (m.host_key_public_modulus, m.supported_ciphers_mask, m.supported_authentications_mask):
            fails.append(['fuzz-pkm-fields-change', body.hex()[:120]])
    else:
        from ssh_audit.ssh1 import SSH1
        if SSH1.crc32(body) != wire.ssh1_crc(body):
            fails.append(['fuzz-ssh1-crc32', body.hex()[:80]])
    return fails


TARGETS = {'c10_roundtrip': c10_roundtrip}


def register(name):
    def deco(f):
        TARGETS[name] = f
        return f
    return deco

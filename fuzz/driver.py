#!/venv/bin/python
"""atheris driver:  VERIF_FUZZ_TARGET=<name> VERIF_FUZZ_OUT=<file> fuzz/driver.py -runs=N -seed=S <corpus dir>

New failure signatures are appended to VERIF_FUZZ_OUT as JSON lines the moment they are seen and the
campaign continues (libFuzzer would otherwise stop at the first one); a stats line is rewritten every
5000 executions because atexit handlers do not run under libFuzzer."""
import json
import os
import sys

import atheris

with atheris.instrument_imports(include=['ssh_audit']):
    import ssh_audit.readbuf  # noqa: F401
    import ssh_audit.writebuf  # noqa: F401
    import ssh_audit.ssh2_kex  # noqa: F401
    import ssh_audit.ssh1_publickeymessage  # noqa: F401
    import ssh_audit.ssh1  # noqa: F401
    import ssh_audit.banner  # noqa: F401
    import ssh_audit.software  # noqa: F401
    import ssh_audit.utils  # noqa: F401
    import ssh_audit.kexdh  # noqa: F401
    import ssh_audit.ssh_socket  # noqa: F401
    import ssh_audit.gextest  # noqa: F401
    import ssh_audit.hostkeytest  # noqa: F401

from fuzz import targets  # noqa: E402
import fuzz.targets_c09  # noqa: E402,F401
import fuzz.targets_c16  # noqa: E402,F401

NAME = os.environ['VERIF_FUZZ_TARGET']
OUT = os.environ['VERIF_FUZZ_OUT']
fn = targets.TARGETS[NAME]
seen = set()
count = [0]
nontrivial = [0]


def one(data):
    count[0] += 1
    try:
        fails = fn(data)
    except Exception as e:   # the target itself must not raise: harness error
        fails = [['fuzz-target-raised:%s' % type(e).__name__, repr(e)[:300]]]
    if len(data) > 8:
        nontrivial[0] += 1
    for sig, detail in fails:
        if sig not in seen:
            seen.add(sig)
            with open(OUT, 'a') as f:
                f.write(json.dumps({'sig': sig, 'detail': detail, 'input': data.hex(), 'exec': count[0]}) + '\n')
    if count[0] % 5000 == 0:
        with open(OUT + '.stats', 'w') as f:
            json.dump({'execs': count[0], 'nontrivial': nontrivial[0]}, f)


atheris.Setup(sys.argv, one)
atheris.Fuzz()

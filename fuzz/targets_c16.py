"""C16 parser-level fuzz targets (filled in with the C16 check)."""

"""C16 parser-level fuzz target: Banner.parse / Software.parse with the round-trip oracle inside."""
import re

from fuzz.targets import register

GRAMMAR = re.compile(r'^SSH-(\d)\.(\d+)-([^ ]*)(?: +(.*))?$')


@register('c16_banner')
def c16_banner(data):
    from ssh_audit.banner import Banner
    from ssh_audit.software import Software
    fails = []
    line = data.decode('utf-8', 'replace')
    if '\n' in line or '\r' in line:
        return fails
    try:
        b = Banner.parse(line)
    except Exception as e:
        return [['fuzz-banner-parse-raised:%s' % type(e).__name__, repr(line)[:200]]]
    clean = ''.join(c if 32 <= ord(c) <= 126 else '?' for c in line)
    m = GRAMMAR.match(clean)
    multi = re.match(r'^SSH-\d\.\s*?\d+-SSH-\d\.', clean) is not None
    if re.match(r'^SSH-\d\.\d+-\s', clean):
        return fails            # an empty software token followed by text is not a form the grammar gives meaning to
    if m and b is None:
        fails.append(['fuzz-grammar-line-rejected', repr(line)[:200]])
    if b is None:
        return fails
    if any(not (32 <= ord(c) <= 126) for c in str(b)):
        fails.append(['fuzz-unsanitised-character-shown', repr(str(b))[:200]])
    if b.valid_ascii != (clean == line):
        fails.append(['fuzz-non-conforming-flag', repr(line)[:200]])
    if m and not multi:
        maj, mino, sw, com = m.groups()
        com = re.sub(r' +', ' ', com.strip()) if com is not None and com.strip() else None
        if (tuple(b.protocol), b.software, b.comments) != ((int(maj), int(mino)), sw, com):
            fails.append(['fuzz-parts', '%r -> %r' % (line[:120], (b.protocol, b.software, b.comments))])
    if multi or re.match(r'^SSH-\d\.\s*?\d+-SSH-\d\.', str(b)):
        return fails            # software tokens starting SSH-d.d are the documented multi-version form (tested separately)
    b2 = Banner.parse(str(b))
    if b2 is None or (b2.protocol, b2.software, b2.comments) != (b.protocol, b.software, b.comments):
        fails.append(['fuzz-render-parse-roundtrip', '%r -> %r' % (line[:120], str(b)[:120])])
    try:
        Software.parse(b)
    except Exception as e:
        fails.append(['fuzz-software-parse-raised:%s' % type(e).__name__, repr(line)[:200]])
    return fails
